"""C14 — graph-reducible algorithms agree with an independent graph library.

Per generated hypergraph a batch of requests (components, is_connected, number / largest / node component,
single-source and all-pairs shortest path lengths, clustering coefficient, to_graph, to_line_graph(s, weights),
to_bipartite_graph(index=True / default), to_encapsulation_dag(subset_types)) is run; hypergraphs may contain EMPTY
hyperedges (built with add_edge([]) or remove_node_from_edge(..., remove_empty=False)); generated DiHypergraphs
exercise the directed branch of to_bipartite_graph
  (a) on the real xgi code, where the property's own predicate is evaluated with networkx / brute force on
      graphs built directly from the member lists as the independent second opinion, and
  (b) through the Lean model driver `Drivers/C14.lean`; canonicalised results are compared.
"""
import copy
import glob
import itertools
import json
import math
import os
import signal
import warnings
from collections import Counter

import networkx as nx
import numpy as np

import xgi

from .. import fn
from ..core import TRUSTED_COMMON, VERIF, Infra, build_and_audit, canon, dec_id, enc_id, finish, idkey, jhash, run_driver

DRIVER = "C14"
WEIGHTS = [None, "absolute", "normalized"]
SUBSETS = ["all", "immediate", "empirical"]
S_VALUES = (1, 2, 3)
S_NONPOSITIVE = (0, -1)
# kill-switch: the model driver is interpreted and polynomial (~n^3) in the network size (measured: a 32-node chain
# with all requests 7 s, 64 nodes 70 s); nothing larger than this is ever sent to it
MAX_NODES = 12
MAX_EDGES = 12
DRIVER_TIMEOUT = 900
SITE = {"components": "connected_components", "is_connected": "is_connected", "number_cc": "number_connected_components",
        "largest_cc": "largest_connected_component", "node_cc": "node_connected_component",
        "sssp": "single_source_shortest_path_length", "spl": "shortest_path_length",
        "clustering": "clustering_coefficient", "to_graph": "to_graph", "to_line_graph": "to_line_graph",
        "to_bipartite_graph": "to_bipartite_graph", "to_encapsulation_dag": "to_encapsulation_dag"}


# ----------------------------------------------------------------------------- canonical forms

def skey(x):
    return idkey(x)


def sset(xs):
    return sorted((enc_id(x) for x in xs), key=skey)


def upair(a, b):
    a, b = enc_id(a), enc_id(b)
    return [a, b] if skey(a) <= skey(b) else [b, a]


def num(v):
    """numbers as they come out of the implementation: ints stay ints, inf -> "inf", floats stay floats"""
    if isinstance(v, (bool, np.bool_)):
        return {"bool": bool(v)}
    if isinstance(v, (int, np.integer)):
        return int(v)
    if isinstance(v, (float, np.floating)):
        v = float(v)
        return "inf" if v == math.inf else ("nan" if math.isnan(v) else v)
    return {"other": repr(v)}


def sort_rows(rows, k=1):
    return sorted(rows, key=lambda r: tuple(skey(x) for x in r[:k]))


def norm_model(f, v, directed=False, index=True):
    """put a (canon()-ed) model answer into the comparison form (sorting what is set-like)"""
    if f == "to_graph":
        return {"nodes": sorted(v["nodes"], key=skey), "edges": sort_rows([upair(a, b) + [w] for a, b, w in v["edges"]], 2)}
    if f == "to_line_graph":
        return {"nodes": sort_rows(v["nodes"]), "edges": sort_rows([upair(a, b) + [w] for a, b, w in v["edges"]], 2)}
    if f == "to_bipartite_graph":
        out = {"nodes": sorted(v["nodes"]), "edges": sorted((list(e) if directed else sorted(e)) for e in v["edges"])}
        if index:
            out["nidx"] = sorted(v["nidx"], key=lambda r: r[0])
            out["eidx"] = sorted(v["eidx"], key=lambda r: r[0])
        return out
    if f == "to_encapsulation_dag":
        return {"nodes": sorted(v["nodes"], key=skey), "edges": sort_rows(v["edges"], 2)}
    return v


def same_num(x, m):
    """implementation number x against the model's exact value m (int | "p/q" | "inf")"""
    if isinstance(m, bool) or isinstance(x, dict):
        return False
    if isinstance(m, int):
        return isinstance(x, int) and x == m
    if m == "inf":
        return x == "inf"
    if isinstance(m, str) and "/" in m:
        return isinstance(x, (int, float)) and fn.approx_equal(x, m)
    return x == m


def same(f, r, m):
    """canonical implementation result r vs normalised model answer m"""
    if r.get("out") != m.get("out"):
        return False
    if r["out"] != "ok":
        return True
    a, b = r["v"], m["v"]
    try:
        if f == "clustering":
            return len(a) == len(b) and all(x[0] == y[0] and same_num(x[1], y[1]) for x, y in zip(a, b))
        if f == "to_line_graph":
            return (a["nodes"] == b["nodes"] and len(a["edges"]) == len(b["edges"]) and
                    all(x[:2] == y[:2] and (x[2] is None and y[2] is None or same_num(x[2], y[2]))
                        for x, y in zip(a["edges"], b["edges"])))
    except Exception:  # noqa
        return False
    return a == b


# ----------------------------------------------------------------------------- the implementation side

class MyH(xgi.Hypergraph):
    """a trivial subclass: a hypergraph in the sense of the quantifier"""


def build_case(c):
    """the real network of a request: an xgi.Hypergraph (key "net"; empty hyperedges made by add_edge([]) or, with
    "empty_via": "remove", by add_edge([x]) + remove_node_from_edge(e, x, remove_empty=False)) or an
    xgi.DiHypergraph (key "dinet", edges = (id, tail, head))"""
    if "dinet" in c:
        nodes = [dec_id(x) for x in c["dinet"]["nodes"]]
        edges = [(dec_id(e), [dec_id(x) for x in t], [dec_id(x) for x in h]) for e, t, h in c["dinet"]["edges"]]
        D = xgi.DiHypergraph()
        D.add_nodes_from(nodes)
        for e, t, h in edges:
            D.add_edge((t, h), idx=e)
        return nodes, edges, D
    nodes = [dec_id(x) for x in c["net"]["nodes"]]
    edges = [(dec_id(e), [dec_id(x) for x in ms]) for e, ms in c["net"]["edges"]]
    if c.get("cls") == "SimplicialComplex":
        # the listed "edges" are the simplices handed to add_simplex (their IDs are not used: a complex names its own
        # faces); the network the predicate judges is the instance's OWN node list and edges.members()
        S = xgi.SimplicialComplex()
        S.add_nodes_from(nodes)
        for _, ms in edges:
            if ms:
                S.add_simplex(ms)
        return list(S.nodes), [(e, list(S.edges.members(e))) for e in S.edges], S
    H = MyH() if c.get("cls") == "MyH" else xgi.Hypergraph()
    H.add_nodes_from(nodes)
    for e, ms in edges:
        if not ms and nodes and c.get("empty_via") == "remove":
            H.add_edge([nodes[0]], idx=e)
            H.remove_node_from_edge(e, nodes[0], remove_empty=False)
        else:
            H.add_edge(ms, idx=e)
    return nodes, edges, H


def graph_kind(G):
    return type(G).__name__ if type(G) in (nx.Graph, nx.DiGraph, nx.MultiGraph, nx.MultiDiGraph) else "other:" + type(G).__name__


def graph_attr(d, key):
    """attribute dict of a networkx link / vertex that must be exactly {key: value}; else a marker"""
    if set(d) == {key}:
        return d[key]
    return {"unexpected-attrs": sorted(map(str, d))}


def call_impl(c, H):
    """call the public function; returns the canonical value (same shape as norm_model)"""
    f = c["f"]
    if f == "components":
        return [sset(x) for x in xgi.connected_components(H)]
    if f == "is_connected":
        r = xgi.is_connected(H)
        return bool(r) if isinstance(r, (bool, np.bool_)) else {"other": repr(r)}
    if f == "number_cc":
        return num(xgi.number_connected_components(H))
    if f == "largest_cc":
        return sset(xgi.largest_connected_component(H))
    if f == "node_cc":
        return sset(xgi.node_connected_component(H, dec_id(c["n"])))
    if f == "sssp":
        d = xgi.single_source_shortest_path_length(H, dec_id(c["src"]))
        return [[enc_id(k), num(v)] for k, v in d.items()]
    if f == "spl":
        return [[enc_id(s), [[enc_id(k), num(v)] for k, v in d.items()]] for s, d in xgi.shortest_path_length(H)]
    if f == "clustering":
        return [[enc_id(k), num(v)] for k, v in xgi.clustering_coefficient(H).items()]
    if f == "to_graph":
        G = xgi.to_graph(H)
        bad = [n for n, d in G.nodes(data=True) if d]
        return {"nodes": sset(G.nodes) + ([{"attrs-on": sset(bad)}] if bad else []), "directed": G.is_directed() or G.is_multigraph(),
                "edges": sort_rows([upair(a, b) + [num(graph_attr(d, "weight"))] for a, b, d in G.edges(data=True)], 2)}
    if f == "to_line_graph":
        G = xgi.to_line_graph(H, s=c["s"], weights=c["weights"])
        nodes = []
        for n, d in G.nodes(data=True):
            oh = graph_attr(d, "original_hyperedge")
            nodes.append([enc_id(n), sset(oh) if isinstance(oh, (set, frozenset)) else oh])
        edges = [upair(a, b) + [None if not d else num(graph_attr(d, "weight"))] for a, b, d in G.edges(data=True)]
        return {"nodes": sort_rows(nodes), "edges": sort_rows(edges, 2), "directed": G.is_directed() or G.is_multigraph()}
    if f == "to_bipartite_graph":
        directed = "dinet" in c
        if c.get("index", True):
            ret = xgi.to_bipartite_graph(H, index=True)
            if not (isinstance(ret, tuple) and len(ret) == 3):
                return {"shape": "index=True did not return (graph, dict, dict): " + type(ret).__name__}
            G, nidx, eidx = ret
        else:
            G = xgi.to_bipartite_graph(H)          # the default: index=False, the graph alone
            if not isinstance(G, nx.Graph):
                return {"shape": "index=False did not return a graph: " + type(G).__name__}
            nidx = eidx = None
        out = {"nodes": sorted([num(n), num(graph_attr(d, "bipartite"))] for n, d in G.nodes(data=True)),
               "edges": sorted(([num(a), num(b)] if directed else sorted([num(a), num(b)])) + ([{"attrs": sorted(d)}] if d else [])
                               for a, b, d in G.edges(data=True)),
               "kind": graph_kind(G)}
        if nidx is not None:
            out["nidx"] = sorted(([num(k), enc_id(v)] for k, v in nidx.items()), key=lambda r: r[0])
            out["eidx"] = sorted(([num(k), enc_id(v)] for k, v in eidx.items()), key=lambda r: r[0])
        return out
    if f == "to_encapsulation_dag":
        G = xgi.to_encapsulation_dag(H, subset_types=c["subset_types"])
        bad = [n for n, d in G.nodes(data=True) if d] + [a for a, b, d in G.edges(data=True) if d]
        return {"nodes": sset(G.nodes) + ([{"attrs-on": sset(bad)}] if bad else []),
                "edges": sort_rows([[enc_id(a), enc_id(b)] for a, b in G.edges], 2), "digraph": G.is_directed() and not G.is_multigraph(),
                "order": [enc_id(n) for n in G.nodes]}
    raise Infra(f"unknown function {f}")


def strip_flags(v):
    """graph-kind flags are checked by the predicate, not sent by the model"""
    if isinstance(v, dict):
        return {k: x for k, x in v.items() if k not in ("directed", "digraph", "order", "kind")}
    return v


class NoAnswer(BaseException):
    """the CPU budget of one library call expired (not an Exception: nothing in the library or the harness may swallow it)"""


def _vt_alarm(signum, frame):
    raise NoAnswer()


# every anchored function is a terminating loop over <= 12 nodes / 12 edges (model: sssp_terminates, bfs_fuel_suffices) and
# answers within milliseconds; a call that has not answered after CALL_CPU_S seconds of CPU time of THIS process
# (ITIMER_VIRTUAL: a loaded host cannot trip it) is repeated once with five times the budget, and only a second expiry is
# the answer "no-answer" (reported as the failure class no-answer-within-cpu-budget).  After NOANSWER_CAP confirmed
# expiries of one function it is not called again in this run (the requests are counted as skipped, not as held).
CALL_CPU_S = 2.0
NOANSWER_CAP = 2
NOANSWER = Counter()


def _timed(f, seconds):
    old = signal.signal(signal.SIGVTALRM, _vt_alarm)
    try:
        signal.setitimer(signal.ITIMER_VIRTUAL, seconds)
        try:
            return f()
        finally:
            signal.setitimer(signal.ITIMER_VIRTUAL, 0)
    finally:
        signal.signal(signal.SIGVTALRM, old)


def impl(c, budget=CALL_CPU_S, retry=True, force=False):
    nodes, edges, H = build_case(c)
    if NOANSWER[c["f"]] >= (2 * NOANSWER_CAP if force else NOANSWER_CAP):
        return {"out": "skipped"}, nodes, edges       # (a forced call is granted NOANSWER_CAP further expiries, not more)
    with warnings.catch_warnings():
        warnings.simplefilter("ignore")
        try:
            try:
                v = _timed(lambda: call_impl(c, H), budget)
            except NoAnswer:
                if not retry:
                    raise
                nodes, edges, H = build_case(c)
                v = _timed(lambda: call_impl(c, H), 5 * budget)
        except NoAnswer:
            NOANSWER[c["f"]] += 1
            return {"out": "err:no-answer", "msg": f"no answer within {budget * (5 if retry else 1):g} s of CPU time"}, nodes, edges
        except Infra:
            raise
        except Exception as ex:  # noqa
            return {"out": "err:" + type(ex).__name__, "msg": str(ex)[:160]}, nodes, edges
    return {"out": "ok", "v": v}, nodes, edges


# ----------------------------------------------------------------------------- the predicate (second opinion)

def reference(nodes, edges):
    """graphs built directly from the member lists, handed to networkx"""
    B = nx.Graph()
    B.add_nodes_from(("n", x) for x in nodes)
    B.add_nodes_from(("e", e) for e, _ in edges)
    B.add_edges_from((("n", x), ("e", e)) for e, ms in edges for x in ms)
    comps = [frozenset(x for t, x in comp if t == "n") for comp in nx.connected_components(B)]
    comps = [c for c in comps if c]
    G = nx.Graph()
    G.add_nodes_from(nodes)
    for _, ms in edges:
        G.add_edges_from(itertools.combinations(ms, 2))
    return comps, G


def expected_dists(G, nodes, src):
    d = nx.single_source_shortest_path_length(G, src)
    return {n: d.get(n, math.inf) for n in nodes}


def check_dists(fails, got, G, nodes, src, comps):
    exp = expected_dists(G, nodes, src)
    if sorted(got, key=repr) != sorted(exp, key=repr):
        fails.append(("distance-keys", f"keys {list(got)} vs nodes {nodes}")); return
    if got[src] != 0:
        fails.append(("diagonal-nonzero", f"dist({src!r},{src!r}) = {got[src]}"))
    for n in nodes:
        if got[n] != exp[n]:
            same_comp = any(src in c and n in c for c in comps)
            if not same_comp and got[n] != math.inf:
                cls = "finite-across-components"
            elif same_comp and got[n] == math.inf:
                cls = "infinite-within-component"
            else:
                cls = "distance-differs-from-bfs"
            fails.append((cls, f"dist({src!r},{n!r}) = {got[n]} but BFS distance in the clique expansion is {exp[n]}"))


def strict_subset_links(edges, kind):
    """the links the definition of the encapsulation DAG prescribes (brute force over all ordered pairs)"""
    sets = {e: frozenset(ms) for e, ms in edges}
    allp = {(a, b) for a in sets for b in sets if a != b and len(sets[b]) < len(sets[a]) and sets[b] <= sets[a] and sets[b]}
    if kind == "all":
        return allp
    if kind == "immediate":
        return {(a, b) for a, b in allp if len(sets[a]) == len(sets[b]) + 1}
    out = set()
    for a, b in allp:
        min_sup = min(len(sets[p]) for p, q in allp if q == b)
        max_sub = max(len(sets[q]) for p, q in allp if p == a)
        if len(sets[a]) == min_sup and len(sets[b]) == max_sub:
            out.add((a, b))
    return out


def line_zero_div(c, edges):
    """weights="normalized" is |a ∩ b| / min(|a|, |b|): undefined (0/0) exactly when a pair that is linked contains an
    empty hyperedge, which needs s <= 0; only then is ZeroDivisionError not a violation"""
    return c["weights"] == "normalized" and c["s"] <= 0 and \
        any(not m1 or not m2 for (_, m1), (_, m2) in itertools.combinations(edges, 2))


def pred_bipartite(c, v, nodes, edges):
    """to_bipartite_graph: vertices 0..n-1 (bipartite=0) name the nodes and n..n+m-1 (bipartite=1) the hyperedges;
    Hypergraph: nx.Graph with a link node-edge per incidence; DiHypergraph: nx.DiGraph with node -> edge for every
    TAIL member and edge -> node for every HEAD member; with index=True the two index dicts name the vertices, with the
    default index=False the graph alone is returned and vertex i is the i-th node / vertex n+j the j-th edge"""
    fails = []
    directed = "dinet" in c
    if "shape" in v:
        return [("bipartite-return-shape", v["shape"])]
    want = "DiGraph" if directed else "Graph"
    if v.get("kind") != want:
        fails.append(("graph-kind", f"to_bipartite_graph returned a {v.get('kind')}, not a {want}"))
    eids = [e[0] for e in edges]
    if c.get("index", True):
        nidx = {k: dec_id(x) for k, x in v["nidx"]}
        eidx = {k: dec_id(x) for k, x in v["eidx"]}
    else:
        nidx = {i: n for i, n in enumerate(nodes)}
        eidx = {len(nodes) + j: e for j, e in enumerate(eids)}
    part0 = sorted(n for n, b in v["nodes"] if b == 0)
    part1 = sorted(n for n, b in v["nodes"] if b == 1)
    if len(part0) + len(part1) != len(v["nodes"]) or set(nidx) & set(eidx):
        fails.append(("bipartite-flags", f"{v['nodes']}"))
    if sorted(nidx) != part0 or sorted(map(repr, nidx.values())) != sorted(map(repr, nodes)) or len(set(map(repr, nidx.values()))) != len(nidx):
        fails.append(("bipartite-node-part", f"index {nidx} part {part0} nodes {nodes}"))
    if sorted(eidx) != part1 or sorted(map(repr, eidx.values())) != sorted(map(repr, eids)) or len(set(map(repr, eidx.values()))) != len(eidx):
        fails.append(("bipartite-edge-part", f"index {eidx} part {part1} edges {eids}"))
    if fails:
        return fails
    got = set()
    for e in v["edges"]:
        if len(e) != 2:
            fails.append(("bipartite-link-attrs", f"{e}")); continue
        a, b = e
        if a in nidx and b in eidx:
            got.add(("node->edge", repr(nidx[a]), repr(eidx[b])))
        elif b in nidx and a in eidx:
            got.add(("edge->node" if directed else "node->edge", repr(nidx[b]), repr(eidx[a])))
        else:
            fails.append(("bipartite-link-within-part", f"{e}"))
    if directed:
        exp = {("node->edge", repr(x), repr(e)) for e, t, h in edges for x in t} | \
              {("edge->node", repr(x), repr(e)) for e, t, h in edges for x in h}
        cls = "bipartite-directed-links"
    else:
        exp = {("node->edge", repr(x), repr(e)) for e, ms in edges for x in ms}
        cls = "bipartite-links"
    if got != exp or len(v["edges"]) != len(exp):
        fails.append((cls, f"links (direction, node, edge) {sorted(got)} vs incidence {sorted(exp)}"))
    return fails


def pred(c, r, nodes, edges):
    """clauses of C14 evaluated on the implementation's answer r; returns [(failure_class, detail)]"""
    f = c["f"]
    fails = []
    if r["out"] == "skipped":
        return []
    if r["out"] == "err:no-answer":
        return [("no-answer-within-cpu-budget", f"{SITE[f]} did not return: {r.get('msg', '')} on a network of {len(nodes)} nodes / "
                 f"{len(edges)} edges (the modelled loop terminates within |nodes|+1 rounds)")]
    if "dinet" in c:
        if r["out"] != "ok":
            return [("raises-" + r["out"][4:], f"{SITE[f]} raised {r['out']} on a DiHypergraph: {r.get('msg', '')}")]
        return pred_bipartite(c, r["v"], nodes, edges)
    if r["out"] != "ok":
        legit = (f in ("is_connected", "largest_cc") and not nodes) or \
                (f == "node_cc" and dec_id(c["n"]) not in nodes) or (f == "sssp" and dec_id(c["src"]) not in nodes) or \
                (f == "to_line_graph" and c["weights"] not in WEIGHTS) or (f == "to_encapsulation_dag" and c["subset_types"] not in SUBSETS) or \
                (f == "to_line_graph" and r["out"] == "err:ZeroDivisionError" and line_zero_div(c, edges))
        if not legit:
            fails.append(("raises-" + r["out"][4:], f"{SITE[f]} raised {r['out']}: {r.get('msg', '')}"))
        return fails
    v = r["v"]
    comps, G = reference(nodes, edges)
    dv = lambda x: dec_id(x)
    if f == "components":
        got = [frozenset(dv(x) for x in comp) for comp in v]
        if any(len(cmp) == 0 for cmp in got):
            fails.append(("empty-component", "a component is empty"))
        if set().union(*got) != set(nodes) if got else bool(nodes):
            fails.append(("components-do-not-cover", f"union {sorted(map(repr, set().union(*got)))} vs nodes {nodes}"))
        if sum(len(x) for x in got) != len(set().union(*got)) if got else False:
            fails.append(("components-overlap", f"{[sorted(map(repr, x)) for x in got]}"))
        if sorted(map(lambda s: sorted(map(repr, s)), got)) != sorted(map(lambda s: sorted(map(repr, s)), comps)):
            fails.append(("components-differ-from-bipartite", f"xgi {[sorted(map(repr, x)) for x in got]} vs networkx on the node-edge graph {[sorted(map(repr, x)) for x in comps]}"))
    elif f == "is_connected":
        if v is not (len(comps) == 1):
            fails.append(("is-connected-inconsistent", f"is_connected = {v} with {len(comps)} components"))
    elif f == "number_cc":
        if v != len(comps):
            fails.append(("count-inconsistent", f"number_connected_components = {v}, partition has {len(comps)}"))
    elif f == "largest_cc":
        got = frozenset(dv(x) for x in v)
        if got not in comps:
            fails.append(("largest-not-a-component", f"{sorted(map(repr, got))}"))
        elif len(got) != max(len(x) for x in comps):
            fails.append(("largest-not-largest", f"size {len(got)} < {max(len(x) for x in comps)}"))
    elif f == "node_cc":
        got = frozenset(dv(x) for x in v)
        exp = next(x for x in comps if dv(c["n"]) in x)
        if got != exp:
            fails.append(("node-component-inconsistent", f"{sorted(map(repr, got))} vs {sorted(map(repr, exp))}"))
    elif f == "sssp":
        got = {dv(k): (math.inf if d == "inf" else d) for k, d in v}
        check_dists(fails, got, G, nodes, dv(c["src"]), comps)
    elif f == "spl":
        table = {dv(s): {dv(k): (math.inf if d == "inf" else d) for k, d in row} for s, row in v}
        if [dv(s) for s, _ in v] != list(nodes):
            fails.append(("distance-sources", f"sources {[s for s, _ in v]} vs nodes {nodes}"))
        else:
            for s in nodes:
                check_dists(fails, table[s], G, nodes, s, comps)
            if not fails:
                for a in nodes:
                    for b in nodes:
                        if table[a][b] != table[b][a]:
                            fails.append(("asymmetric", f"dist({a!r},{b!r}) = {table[a][b]} != dist({b!r},{a!r}) = {table[b][a]}"))
    elif f == "clustering":
        exp = nx.clustering(G)
        if [dv(k) for k, _ in v] != list(nodes):
            fails.append(("clustering-keys", f"{[k for k, _ in v]} vs {nodes}"))
        else:
            for k, x in v:
                if not isinstance(x, (int, float)) or isinstance(x, bool) or abs(x - exp[dv(k)]) > 1e-9:
                    fails.append(("clustering-differs-from-projection", f"node {k!r}: {x} vs networkx clustering of the projection {exp[dv(k)]}"))
    elif f == "to_graph":
        exp_e = sort_rows([upair(a, b) + [1] for a, b in G.edges], 2)
        if v.get("directed"):
            fails.append(("graph-kind", "to_graph did not return a simple undirected graph"))
        if v["nodes"] != sset(nodes):
            fails.append(("projection-vertices", f"{v['nodes']} vs {sset(nodes)}"))
        if v["edges"] != exp_e:
            fails.append(("projection-links", f"{v['edges']} vs pairs sharing an edge {exp_e}"))
    elif f == "to_line_graph":
        s, w = c["s"], c["weights"]
        if v.get("directed"):
            fails.append(("graph-kind", "to_line_graph did not return a simple undirected graph"))
        exp_n = sort_rows([[enc_id(e), sset(ms)] for e, ms in edges])
        if v["nodes"] != exp_n:
            fails.append(("line-graph-vertices", f"{v['nodes']} vs {exp_n}"))
        exp_e = []
        for (e1, m1), (e2, m2) in itertools.combinations(edges, 2):
            k = len(set(m1) & set(m2))
            if k >= s:      # any int s; (s <= 0 links every pair; 0/0 cannot occur here: that case raised and is legit above)
                exp_e.append(upair(e1, e2) + [None if w is None else (k if w == "absolute" else k / min(len(m1), len(m2)))])
        exp_e = sort_rows(exp_e, 2)
        ok = len(exp_e) == len(v["edges"]) and all(
            x[:2] == y[:2] and ((x[2] is None and y[2] is None) or
                                (w == "absolute" and isinstance(x[2], int) and x[2] == y[2]) or
                                (w == "normalized" and isinstance(x[2], (int, float)) and abs(x[2] - y[2]) <= 1e-9))
            for x, y in zip(v["edges"], exp_e))
        if not ok:
            fails.append(("line-graph-links", f"s={s} weights={w}: {v['edges']} vs definition {exp_e}"))
    elif f == "to_bipartite_graph":
        fails += pred_bipartite(c, v, nodes, edges)
    elif f == "to_encapsulation_dag":
        kind = c["subset_types"]
        if not v.get("digraph"):
            fails.append(("graph-kind", "to_encapsulation_dag did not return a DiGraph"))
        if v["nodes"] != sset(e for e, _ in edges):
            fails.append(("dag-vertices", f"{v['nodes']} vs {sset(e for e, _ in edges)}"))
        # definition: a -> b iff b is a NON-EMPTY strict subset of a (an empty hyperedge is an isolated vertex;
        # model theorem to_dag_empty_isolated), filtered per subset_types
        exp = sort_rows([[enc_id(a), enc_id(b)] for a, b in strict_subset_links(edges, kind)], 2)
        if v["edges"] != exp:
            fails.append((f"{kind}-links-differ-from-definition", f"{v['edges']} vs prescribed {exp}"))
    return fails


# ----------------------------------------------------------------------------- case generation

def requests_for(nodes, edges, rng=None, full=False):
    """the batch of requests for one hypergraph; `full` = every node / source / option, else a sample"""
    net = fn.enc_net(nodes, edges)
    reqs = [{"f": f} for f in ("components", "is_connected", "number_cc", "largest_cc", "spl", "clustering", "to_graph")]
    reqs += [{"f": "to_bipartite_graph", "index": True}, {"f": "to_bipartite_graph", "index": False}]
    pick = list(nodes) if (full or rng is None) else rng.sample(list(nodes), min(2, len(nodes)))
    missing = "zz-missing" if (full or rng is None or rng.random() < 0.3) else None
    for n in pick:
        reqs.append({"f": "node_cc", "n": enc_id(n)})
        reqs.append({"f": "sssp", "src": enc_id(n)})
    if missing is not None and missing not in nodes:
        reqs.append({"f": "node_cc", "n": missing})
        reqs.append({"f": "sssp", "src": missing})
    for s in S_VALUES:
        for w in WEIGHTS:
            reqs.append({"f": "to_line_graph", "s": s, "weights": w})
    if full or rng is None or rng.random() < 0.3:       # s <= 0: every pair is linked; normalized may be 0/0
        s0 = S_NONPOSITIVE[0] if (rng is None or rng.random() < 0.7) else S_NONPOSITIVE[1]
        for w in WEIGHTS:
            reqs.append({"f": "to_line_graph", "s": s0, "weights": w})
    if full or rng is None or rng.random() < 0.15:
        reqs.append({"f": "to_line_graph", "s": 4, "weights": "absolute"})
    for t in SUBSETS:
        reqs.append({"f": "to_encapsulation_dag", "subset_types": t})
    if full or rng is None or rng.random() < 0.2:
        reqs.append({"f": "to_line_graph", "s": 1, "weights": "relative"})
        reqs.append({"f": "to_encapsulation_dag", "subset_types": "none"})
    via = "remove" if (rng is not None and rng.random() < 0.5) else "add"
    for r in reqs:
        r["net"] = net
        if any(not ms for _, ms in edges):
            r["empty_via"] = via
    return reqs


def enc_dinet(nodes, edges):
    return {"nodes": [enc_id(n) for n in nodes],
            "edges": [[enc_id(e), [enc_id(x) for x in t], [enc_id(x) for x in h]] for e, t, h in edges]}


def direqs_for(nodes, edges):
    """requests on a DiHypergraph: the directed branch of to_bipartite_graph, with and without the index dicts"""
    net = enc_dinet(nodes, edges)
    return [{"f": "to_bipartite_graph", "index": True, "dinet": net}, {"f": "to_bipartite_graph", "index": False, "dinet": net}]


def gen_dihypergraph(rng, max_nodes=6, max_edges=5, max_size=3):
    """(nodes, [(eid, tail, head)]): tails and heads drawn independently (may overlap, may be empty, both empty with
    small probability), isolated nodes, int / str / mixed labels and edge IDs in shuffled insertion order"""
    k = rng.randint(1, max_nodes)
    lab = rng.choice(fn.LABELS)(k)
    rng.shuffle(lab)
    m = rng.randint(0 if rng.random() < 0.1 else 1, max_edges)
    eid = rng.choice(fn.EDGE_IDS)(m)
    edges = []
    for i in range(m):
        lo = 0 if rng.random() < 0.2 else 1
        t = rng.sample(lab, min(k, rng.randint(lo, max_size)))
        h = rng.sample(lab, min(k, rng.randint(lo, max_size)))
        if rng.random() < 0.15 and t:
            h = list(t)                      # tail == head: every member is linked in both directions
        edges.append((eid[i], t, h))
    return lab, edges


def fresh_edge_id(used, rng):
    ints = [e for e in used if isinstance(e, int) and not isinstance(e, bool)]
    if ints:
        return max(ints) + rng.randint(1, 3)
    if used:                                  # string IDs only
        cand = "zz%d" % rng.randint(0, 99)
        while cand in used:
            cand += "x"
        return cand
    return rng.choice([0, 7, "e"])


def with_empty_edges(rng, nodes, edges, p=0.35):
    """with probability p insert one or two EMPTY hyperedges (fresh IDs) at random positions of the edge list"""
    if rng.random() >= p:
        return nodes, edges
    edges = list(edges)
    for _ in range(1 if rng.random() < 0.7 else 2):
        e = fresh_edge_id({x for x, _ in edges}, rng)
        edges.insert(rng.randint(0, len(edges)), (e, []))
    return nodes, edges


def gen_nested(rng):
    """nested families: a few big edges and random sub-edges of them (what the encapsulation DAG is about)"""
    k = rng.randint(3, 7)
    lab = rng.choice(fn.LABELS)(k)
    rng.shuffle(lab)
    tops = [rng.sample(lab, rng.randint(2, min(k, 5))) for _ in range(rng.randint(1, 3))]
    sets = list(tops)
    for _ in range(rng.randint(1, 5)):
        t = rng.choice(sets)
        sets.append(rng.sample(t, rng.randint(1, len(t))))
    rng.shuffle(sets)
    eid = rng.choice(fn.EDGE_IDS)(len(sets))
    return lab, [(eid[i], ms) for i, ms in enumerate(sets)]


def gen_disconnected(rng):
    """disjoint union of two generated hypergraphs (labels made disjoint), nodes interleaved"""
    n1, e1 = fn.gen_hypergraph(rng, max_nodes=4, max_edges=3, labels=fn.LABELS[0])
    n2, e2 = fn.gen_hypergraph(rng, max_nodes=4, max_edges=3, labels=fn.LABELS[3])
    nodes = n1 + n2
    rng.shuffle(nodes)
    edges = [("p%d" % i, ms) for i, (_, ms) in enumerate(e1)] + [("q%d" % i, ms) for i, (_, ms) in enumerate(e2)]
    rng.shuffle(edges)
    return nodes, edges


def gen_path(rng):
    """long thin hypergraphs (paths / chains of overlapping edges): distances beyond 2"""
    k = rng.randint(4, 8)
    lab = rng.choice(fn.LABELS[:5])(k)
    rng.shuffle(lab)
    edges, i = [], 0
    while i < k - 1:
        sz = rng.randint(2, 3)
        edges.append(lab[i:i + sz])
        i += rng.randint(1, sz - 1) if sz > 2 else 1
        if rng.random() < 0.15:
            i += 1  # a gap: disconnects
    rng.shuffle(edges)
    eid = rng.choice(fn.EDGE_IDS)(len(edges))
    return lab, [(eid[j], ms) for j, ms in enumerate(edges) if ms]


def gen_plain(rng):
    r = rng.random()
    if r < 0.45:
        return fn.gen_hypergraph(rng, max_nodes=7, max_edges=6, max_size=5)
    if r < 0.7:
        return gen_nested(rng)
    if r < 0.85:
        return gen_disconnected(rng)
    return gen_path(rng)


def gen_any(rng):
    return with_empty_edges(rng, *gen_plain(rng))


def variants(nodes, edges):
    """labelled / multi-edge / isolated-node variants of a small-scope hypergraph"""
    k, m = len(nodes), len(edges)
    lab = dict(zip(nodes, fn.LABELS[5](k)))               # mixed int/str labels
    yield [lab[n] for n in nodes][::-1], [(fn.EDGE_IDS[5](m)[i], [lab[x] for x in ms][::-1]) for i, (_, ms) in enumerate(edges)]
    if edges:                                             # duplicate the first edge (multi-edge), reversed edge order
        dup = edges + [(m, list(edges[0][1]))]
        yield nodes, [(fn.EDGE_IDS[3](m + 1)[i], ms) for i, (_, ms) in enumerate(dup)][::-1]
    yield nodes, edges[:1] + [(m, [])] + edges[1:]        # an empty hyperedge in second position


# ----------------------------------------------------------------------------- running, shrinking, replay

def is_nontrivial(nodes, edges):
    return any(sum(len(ms) for ms in e[1:]) >= 2 for e in edges)


def shrink_case(c, cls, budget=150):
    """greedy: drop edges, then nodes, then members (tail / head members for a directed network), while the predicate
    still fails with the same class"""
    key = "dinet" if "dinet" in c else "net"
    hang = cls == "no-answer-within-cpu-budget"
    if hang:
        budget = min(budget, 40)

    def fails(cand):
        try:
            r, nodes, edges = impl(cand, budget=0.5, retry=False, force=True)
            return any(k == cls for k, _ in pred(cand, r, nodes, edges))
        except Exception:  # noqa
            return False
    c = copy.deepcopy(c)
    changed = True
    while changed and budget > 0:
        changed = False
        net = c[key]
        for i in range(len(net["edges"]) - 1, -1, -1):
            cand = copy.deepcopy(c); del cand[key]["edges"][i]
            budget -= 1
            if fails(cand):
                c, changed = cand, True; break
        if changed:
            continue
        used = {json.dumps(x) for e in net["edges"] for ms in e[1:] for x in ms} | {json.dumps(c.get("n")), json.dumps(c.get("src"))}
        for i in range(len(net["nodes"]) - 1, -1, -1):
            if json.dumps(net["nodes"][i]) in used:
                continue
            cand = copy.deepcopy(c); del cand[key]["nodes"][i]
            budget -= 1
            if fails(cand):
                c, changed = cand, True; break
        if changed:
            continue
        for i, e in enumerate(net["edges"]):
            for part in range(1, len(e)):
                ms = e[part]
                for j in range(len(ms) - 1, -1, -1):
                    if key == "net" and len(ms) <= 1:
                        break
                    cand = copy.deepcopy(c); del cand[key]["edges"][i][part][j]
                    budget -= 1
                    if fails(cand):
                        c, changed = cand, True; break
                if changed:
                    break
            if changed:
                break
    return c


def python_replay(c):
    args = {k: v for k, v in c.items() if k not in ("f", "net", "dinet", "empty_via")}
    if "dinet" in c:
        return (f"nodes={[dec_id(x) for x in c['dinet']['nodes']]!r}; "
                f"edges={[(dec_id(e), [dec_id(x) for x in t], [dec_id(x) for x in h]) for e, t, h in c['dinet']['edges']]!r}; "
                f"D=xgi.DiHypergraph(); D.add_nodes_from(nodes); [D.add_edge((t, h), idx=e) for e, t, h in edges]; {SITE[c['f']]}(D, {args})")
    args = {k: v for k, v in args.items() if k not in ("cls", "large", "predicate_only")}
    if len(c["net"]["nodes"]) > 2 * MAX_NODES or len(c["net"]["edges"]) > 2 * MAX_EDGES:
        return f"./check C14 --replay <this file>   # large network: {len(c['net']['nodes'])} nodes / {len(c['net']['edges'])} edges; {SITE[c['f']]}(H, {args})"
    if c.get("cls") == "SimplicialComplex":
        return (f"nodes={[dec_id(x) for x in c['net']['nodes']]!r}; simplices={[[dec_id(x) for x in ms] for e, ms in c['net']['edges'] if ms]!r}; "
                f"S=xgi.SimplicialComplex(); S.add_nodes_from(nodes); [S.add_simplex(m) for m in simplices]; {SITE[c['f']]}(S, {args})")
    return (f"nodes={[dec_id(x) for x in c['net']['nodes']]!r}; edges={[(dec_id(e), [dec_id(x) for x in ms]) for e, ms in c['net']['edges']]!r}; "
            f"H={'MyH' if c.get('cls') == 'MyH' else 'xgi.Hypergraph'}(); H.add_nodes_from(nodes); [H.add_edge(m, idx=e) for e, m in edges]; {SITE[c['f']]}(H, {args})")


def check_size(c):
    net = c.get("dinet") or c.get("net") or {}
    if len(net.get("nodes", [])) > MAX_NODES or len(net.get("edges", [])) > MAX_EDGES:
        raise Infra(f"C14 case larger than the size guard ({MAX_NODES} nodes / {MAX_EDGES} edges): not sent to the model driver")


def run_batch(ctx, cases, shrink=True, model=True, tag=None):
    """implementation + predicate on every case, then (model=True) the model; returns the disagreements.  model=False:
    predicate-only families (class variants, tuple / str()-colliding labels, large networks): the property's own predicate
    with networkx is evaluated on the implementation's answer, nothing is sent to the Lean driver"""
    results = []
    for c in cases:
        if model:
            check_size(c)
        r, nodes, edges = impl(c)
        if tag and r["out"] != "skipped":
            ctx.stats[f"predicate-only:{tag}"] += 1
        if r["out"] != "skipped":
            ctx.evaluations += 1
            ctx.stats["fn:" + c["f"] + (":directed" if "dinet" in c else "")] += 1
        if "dinet" not in c and any(not ms for _, ms in edges):
            ctx.stats["requests_on_hypergraph_with_empty_edge"] += 1
        if r["out"] != "ok":
            ctx.stats["impl_" + r["out"]] += 1
        if is_nontrivial(nodes, edges):
            ctx.nontrivial.add(jhash([c, r]))
        fails = pred(c, r, nodes, edges)
        seen = set()
        for cls, detail in fails:
            if cls in seen:
                continue
            seen.add(cls)
            known = any(v["site"] == SITE[c["f"]] and v["failure_class"] == cls for v in ctx.violations)
            small = shrink_case(c, cls) if (shrink and not known) else c
            if small is not c:      # the shrunk case must reproduce the class under the full budget, else keep the original
                d2 = "; ".join(d for k, d in pred(small, *impl(small, force=True)) if k == cls)[:600]
                small, detail = (small, d2) if d2 else (c, detail)
            ctx.violation(SITE[c["f"]], cls, dict(small, python=python_replay(small)), detail=detail)
        if r["out"] == "skipped":
            ctx.stats["skipped-after-no-answer:" + c["f"]] += 1
        results.append((r, bool(fails) or r["out"] == "skipped"))
        if model:
            ctx.sample({"request": c, "impl": {k: v for k, v in r.items() if k != "msg"}}, cap=3)
    if not model:
        return []
    resps = run_driver(DRIVER, cases, timeout=DRIVER_TIMEOUT)
    dis = []
    for c, (r, failed), m in zip(cases, results, resps):
        if m.get("out") == "bad-op":
            raise Infra(f"model {DRIVER} rejected request (harness defect): {json.dumps(c)[:300]}")
        if m.get("out") == "unmodelled":
            ctx.stats["unmodelled"] += 1
            continue
        ctx.traces += 1
        mc = canon(m)
        if mc.get("out") == "ok":
            mc["v"] = norm_model(c["f"], mc["v"], directed="dinet" in c, index=c.get("index", True))
        rc = dict(r)
        if rc.get("out") == "ok":
            rc["v"] = strip_flags(rc["v"])
        if failed:
            ctx.stats["predicate-failed(not compared)"] += r["out"] != "skipped"
            continue
        if not same(c["f"], rc, mc):
            dis.append((c, rc, mc))
            ctx.stats["disagree:" + c["f"]] += 1
    if dis:
        ctx.extra.setdefault("disagreements", [])
        for c, r, mc in dis[:5]:
            ctx.extra["disagreements"].append({"request": c, "impl": r, "model": mc})
        ctx.extra["disagreements_total"] = ctx.extra.get("disagreements_total", 0) + len(dis)
        ctx.broken.append(f"correspondence C14 model~xgi: model and implementation differ on {len(dis)} of {len(cases)} requests "
                          f"(functions: {sorted({SITE[c['f']] for c, _, _ in dis})})")
    return dis


# ----------------------------------------------------------------------------- predicate-only families (review 2)
# None of the cases below is sent to the Lean driver: they are judged by the property's own predicate (networkx on graphs
# built from the member lists) alone.

BIG = 2 ** 53          # integers above it are not exactly representable as floats: BIG+1 and BIG+2 collide under float()

# label pools whose members collide under str() / repr-ish formatting (1 / "1"), tuple labels, integers above 2**53
X_LABELS = [
    lambda k: ([1, "1", 0, "0", 2, "2", "x", 3, "3"])[:k],
    lambda k: (["1", 1, "0", 0, "01", 10, "10", "1 ", " 1"])[:k],
    lambda k: ([(0, 0), (0, 1), (1, 0), (1,), (1, 1), ("a", 0), (0,), (0, 0, 0), (2, 1)])[:k],
    lambda k: ([(0, 1), 0, 1, "0", (1, 0), "(0, 1)", (0,), 2, "2"])[:k],
    lambda k: [BIG + 1 + i for i in range(k)],
    lambda k: ([BIG + 1, 1, BIG + 2, 0, -BIG - 1, BIG, 2 ** 64, 2 ** 64 + 1, 2])[:k],
]
X_EDGE_IDS = [
    lambda m: ([1, "1", 0, "0", 2, "2", 3, "3", 4, "4", 5, "5"])[:m],
    lambda m: ([(0, 1), (1, 0), (0,), (1,), (0, 0), (2, 1), ("e", 0), (1, 1), (3,), (4,), (5,), (6,)])[:m],
    lambda m: ([(0, 1), 0, "0", 1, "(0, 1)", (1,), "1", 2, (2,), "2", 3, (3,)])[:m],
    lambda m: [BIG + 1 + i for i in range(m)][::-1],
]


def relabelled(rng, nodes, edges):
    """the same structure with node labels / edge IDs drawn from the X pools (insertion orders shuffled)"""
    k, m = len(nodes), len(edges)
    lab = rng.choice(X_LABELS)(9)
    eid = rng.choice(X_EDGE_IDS)(12)
    if k > len(lab) or m > len(eid):
        return None
    lab, eid = rng.sample(lab, k), rng.sample(eid, m)
    pi = dict(zip(nodes, lab))
    out_nodes = [pi[n] for n in nodes]
    rng.shuffle(out_nodes)
    return out_nodes, [(eid[i], [pi[x] for x in ms]) for i, (_, ms) in enumerate(edges)]


def xlabel_cases(rng, n):
    cases = []
    for _ in range(n):
        got = relabelled(rng, *gen_any(rng))
        if got:
            cases += requests_for(got[0], got[1], rng)
    return cases


def class_cases(rng, n):
    """SimplicialComplex instances (built with add_simplex from generated member lists of size <= 4; the predicate reads the
    instance's own nodes / edges.members()) and instances of a trivial subclass of Hypergraph, through every request"""
    cases = []
    for i in range(n):
        if i % 2:
            nodes, edges = gen_any(rng)
            cls = "MyH"
        else:
            nodes, edges = fn.gen_hypergraph(rng, max_nodes=6, max_edges=3, max_size=4) if rng.random() < 0.6 else gen_path(rng)
            edges = [(e, ms[:4]) for e, ms in edges]
            cls = "SimplicialComplex"
            if rng.random() < 0.3:
                got = relabelled(rng, nodes, edges)
                nodes, edges = got if got else (nodes, edges)
        reqs = requests_for(nodes, edges, rng)
        if cls == "SimplicialComplex":
            S = build_case(dict(reqs[0], cls=cls))[2]
            real = list(S.edges)
            for r in reqs:                       # a complex names its own faces: no empty hyperedges to build
                r.pop("empty_via", None)
        for r in reqs:
            r["cls"] = cls
        cases += reqs
    return cases


def gen_large(rng, i):
    """REGIME family: >= 70 nodes, or >= 130 parallel hyperedges between one pair, always with integer labels above 2**53
    among the nodes (and as edge IDs)"""
    kind = i % 3
    if kind == 0:       # long chain: overlapping edges of size 2-3, repeated edges, a few gaps (several components), distances up to ~60
        k = rng.randint(70, 90)
        lab = rng.sample(range(3 * k), k - 3) + [BIG + 1, BIG + 2, 2 ** 64 + 1]
        rng.shuffle(lab)
        edges, j = [], 0
        while j < k - 1:
            sz = rng.randint(2, 3)
            edges.append(lab[j:j + sz])
            if rng.random() < 0.3:
                edges.append(lab[j:j + 2])               # two nodes sharing two edges
            j += rng.randint(1, sz - 1) if sz > 2 else 1
            if rng.random() < 0.03:
                j += 1
        edges.append(lab[0:3]); edges.append(lab[0:2])
    elif kind == 1:     # >= 130 parallel edges between one pair, plus a few other edges
        k = rng.randint(6, 10)
        lab = rng.sample(range(40), k - 2) + [BIG + 1, BIG + 2]
        rng.shuffle(lab)
        a, b = rng.sample(lab, 2)
        edges = [[a, b] if rng.random() < 0.5 else [b, a] for _ in range(rng.randint(130, 140))]
        edges += [rng.sample(lab, rng.randint(1, 4)) for _ in range(rng.randint(2, 6))]
        if rng.random() < 0.5:
            edges.append([a, b, rng.choice([x for x in lab if x not in (a, b)])])
    else:               # sparse random hypergraph on 70-100 nodes
        k = rng.randint(70, 100)
        lab = ["v%d" % j for j in range(k - 2)] + [BIG + 1, BIG + 2] if rng.random() < 0.5 else rng.sample(range(BIG, BIG + 500), k)
        rng.shuffle(lab)
        edges = [rng.sample(lab, rng.choice([1, 2, 2, 2, 3, 3, 4, 5])) for _ in range(rng.randint(40, 70))]
    rng.shuffle(edges)
    m = len(edges)
    eid = rng.choice([lambda: list(range(m)), lambda: [BIG + 1 + j for j in range(m)][::-1], lambda: ["e%d" % j for j in range(m)]])()
    return lab, [(eid[j], ms) for j, ms in enumerate(edges)]


def large_requests(rng, nodes, edges, i):
    """only the cheap functions on a large network"""
    net = fn.enc_net(nodes, edges)
    reqs = [{"f": f} for f in ("components", "is_connected", "number_cc", "largest_cc", "clustering", "to_graph")]
    reqs.append({"f": "to_bipartite_graph", "index": True})
    for n in rng.sample(list(nodes), 3) + [x for x in nodes if isinstance(x, int) and x > BIG][:1]:
        reqs.append({"f": "sssp", "src": enc_id(n)})
        reqs.append({"f": "node_cc", "n": enc_id(n)})
    if i % 3 == 0:
        reqs.append({"f": "spl"})
    reqs.append({"f": "to_line_graph", "s": 1, "weights": None})
    reqs.append({"f": "to_line_graph", "s": 2, "weights": rng.choice(["absolute", "normalized"])})
    reqs.append({"f": "to_encapsulation_dag", "subset_types": rng.choice(SUBSETS)})
    for r in reqs:
        r["net"] = net
        r["large"] = True
    return reqs


# ---- held objects: state across calls

EDIT_KINDS = ("swap-edge", "swap-member", "add-edge", "remove-node", "remove-edge", "add-node-to-edge")


def gen_edit(rng, H, kind):
    """one edit of the live network as a list of primitive operations [[method, args…]…] (JSON-able), or None.
    swap-edge / swap-member keep the number of nodes and the number of edges."""
    nodes, eids = list(H.nodes), list(H.edges)
    if kind == "swap-edge":
        if not eids or len(nodes) < 2:
            return None
        e = rng.choice(eids)
        old = set(H.edges.members(e))
        for _ in range(20):
            new = rng.sample(nodes, rng.randint(1, min(4, len(nodes))))
            if set(new) != old:
                break
        else:
            return None
        # removing e must not delete a node (remove_edge never does); the new edge uses existing nodes only
        return [["remove_edge", enc_id(e)], ["add_edge", [enc_id(x) for x in new], enc_id(fresh_edge_id(set(eids), rng))]]
    if kind == "swap-member":
        cand = [(e, n) for e in eids for n in nodes if n not in H.edges.members(e) and len(H.edges.members(e)) >= 1]
        if not cand:
            return None
        e, n = rng.choice(cand)
        out = rng.choice(sorted(H.edges.members(e), key=repr))
        return [["add_node_to_edge", enc_id(e), enc_id(n)], ["remove_node_from_edge", enc_id(e), enc_id(out)]]
    if kind == "add-edge":
        pool = nodes + ["new-node"] if "new-node" not in nodes and rng.random() < 0.3 else nodes
        if not pool:
            return None
        return [["add_edge", [enc_id(x) for x in rng.sample(pool, rng.randint(1, min(4, len(pool))))], enc_id(fresh_edge_id(set(eids), rng))]]
    if kind == "remove-node":
        return [["remove_node", enc_id(rng.choice(nodes))]] if nodes else None
    if kind == "remove-edge":
        return [["remove_edge", enc_id(rng.choice(eids))]] if eids else None
    if kind == "add-node-to-edge":
        cand = [(e, n) for e in eids for n in nodes if n not in H.edges.members(e)]
        if not cand:
            return None
        e, n = rng.choice(cand)
        return [["add_node_to_edge", enc_id(e), enc_id(n)]]
    raise ValueError(kind)


def apply_edit(H, ops):
    for op in ops:
        m, args = op[0], op[1:]
        if m == "add_edge":
            H.add_edge([dec_id(x) for x in args[0]], idx=dec_id(args[1]))
        elif m == "add_simplex":
            H.add_simplex([dec_id(x) for x in args[0]])
        elif m == "remove_simplex":          # by members: a complex names its own faces
            H.remove_simplex_id(next(e for e in H.edges if set(H.edges.members(e)) == {dec_id(x) for x in args[0]}))
        else:
            getattr(H, m)(*[dec_id(a) for a in args])


def snapshot(H):
    """the live network as plain data, read through its own views"""
    return list(H.nodes), [(e, list(H.edges.members(e))) for e in H.edges]


def call_on(c, H):
    """call_impl on a given live object under the CPU guard; exceptions are values"""
    with warnings.catch_warnings():
        warnings.simplefilter("ignore")
        if NOANSWER[c["f"]] >= 2 * NOANSWER_CAP:
            return {"out": "skipped"}                  # this function has not answered several times already in this run
        try:
            return {"out": "ok", "v": _timed(lambda: call_impl(c, H), 5 * CALL_CPU_S)}
        except NoAnswer:
            NOANSWER[c["f"]] += 1
            return {"out": "err:no-answer", "msg": "no answer within the CPU budget"}
        except Infra:
            raise
        except Exception as ex:  # noqa
            return {"out": "err:" + type(ex).__name__, "msg": str(ex)[:160]}


def loose(r):
    """result with the parts that may legitimately depend on the history of an object removed (iteration orders)"""
    if r.get("out") != "ok":
        return {"out": r.get("out")}
    v = r["v"]
    if isinstance(v, dict):
        v = {k: x for k, x in v.items() if k != "order"}
    elif isinstance(v, list):
        v = sorted(v, key=lambda x: json.dumps(x, sort_keys=True, default=repr))
    return {"out": "ok", "v": v}


def held_eval(h, only=None):
    """h = {"net", "cls"?, "steps": [{"edit": ops | None, "calls": [request without net]}]}: ONE live object; all calls of a
    step are made on it in order, then the next edit is applied to the same object.  Every answer is judged (a) by the C14
    predicate on the object's CURRENT structure (networkx) and (b) against the same call on a freshly built network with
    that structure.  Returns [(step, call index, request, failure_class, detail)]; only=(step, index) evaluates the
    verdict of that one call (all calls are still made)."""
    base = {"net": h["net"], "f": "components"}
    if h.get("cls"):
        base["cls"] = h["cls"]
    _, _, H = build_case(base)
    out = []
    for si, step in enumerate(h["steps"]):
        if step.get("edit"):
            try:
                with warnings.catch_warnings():
                    warnings.simplefilter("ignore")
                    apply_edit(H, step["edit"])
            except Exception:  # noqa  (an edit the library refuses: the sequence ends here, nothing is claimed)
                return out
        nodes, edges = snapshot(H)
        cur = fn.enc_net(nodes, edges)
        for ci, call in enumerate(step["calls"]):
            c = dict(call, net=cur)
            r = call_on(c, H)
            if only is not None and only != (si, ci):
                continue
            fr = dict(c)
            if h.get("cls") == "MyH":
                fr["cls"] = "MyH"
            rf, fnodes, fedges = impl(fr, force=True)          # a fresh Hypergraph with the structure the object has now
            fails = pred(c, r, nodes, edges)
            # (a live SimplicialComplex is judged by the predicate alone: a fresh Hypergraph is not "the same call")
            if h.get("cls") != "SimplicialComplex" and loose(r) != loose(rf) and not pred(fr, rf, fnodes, fedges):
                cls = "stale-after-edit" if any(s.get("edit") for s in h["steps"][:si + 1]) else "depends-on-earlier-call"
                what = fails[0][1] if fails else f"held object {json.dumps(loose(r), default=repr)[:200]} vs fresh {json.dumps(loose(rf), default=repr)[:200]}"
                out.append((si, ci, c, cls, f"{SITE[c['f']]} on the live object after {'the edit ' + json.dumps(step.get('edit')) if step.get('edit') else 'earlier calls'} "
                            f"differs from the same call on a freshly built equal network: {what}"[:600]))
            else:
                for k, d in fails:
                    out.append((si, ci, c, k, d))
    return out


def held_case(rng, i):
    cls = "SimplicialComplex" if i % 6 == 5 else ("MyH" if i % 6 == 2 else None)
    if cls == "SimplicialComplex":
        nodes, edges = fn.gen_hypergraph(rng, max_nodes=6, max_edges=3, max_size=3)
    elif i % 4 == 0:
        got = relabelled(rng, *gen_plain(rng))
        nodes, edges = got if got else gen_plain(rng)
    else:
        nodes, edges = gen_plain(rng)
    h = {"net": fn.enc_net(nodes, edges), "steps": []}
    if cls:
        h["cls"] = cls
    _, _, H = build_case({"net": h["net"], "cls": cls, "f": "components"})

    def calls():
        n, e = snapshot(H)
        rq = requests_for(n, e, rng)
        rng.shuffle(rq)
        return [{k: v for k, v in r.items() if k not in ("net", "empty_via")} for r in rq]
    h["steps"].append({"edit": None, "calls": calls()})
    kinds = [rng.choice(EDIT_KINDS[:2]), rng.choice(EDIT_KINDS[2:]), rng.choice(EDIT_KINDS)]
    rng.shuffle(kinds)
    for kind in kinds:
        if cls == "SimplicialComplex":
            n, e = snapshot(H)
            mx = [list(H.edges.members(x)) for x in H.edges.maximal()]
            if not mx or len(n) < 2:
                break
            ops = [["remove_simplex", [enc_id(x) for x in rng.choice(mx)]]] if rng.random() < 0.5 else []
            ops.append(["add_simplex", [enc_id(x) for x in rng.sample(n, rng.randint(2, min(3, len(n))))]])
        else:
            ops = gen_edit(rng, H, kind)
        if not ops:
            continue
        try:
            with warnings.catch_warnings():
                warnings.simplefilter("ignore")
                apply_edit(H, ops)
        except Exception:  # noqa
            break
        h["steps"].append({"edit": ops, "calls": calls()})
    return h


def held_python(h, si, ci):
    lines = [f"net={json.dumps(h['net'])}  # class {h.get('cls') or 'Hypergraph'}; build it, then on the SAME object:"]
    for k, step in enumerate(h["steps"][:si + 1]):
        if step.get("edit"):
            lines.append("edit " + json.dumps(step["edit"]))
        cs = step["calls"] if k < si else step["calls"][:ci + 1]
        lines.append("calls " + "; ".join(SITE[c["f"]] + json.dumps({a: b for a, b in c.items() if a != "f"}) for c in cs))
    return " | ".join(lines)


def shrink_held(h, si, ci, cls):
    """keep only what is needed: drop later steps / later calls, then earlier calls one at a time, while the same call
    still fails with the same class"""
    h = copy.deepcopy(h)
    h["steps"] = h["steps"][:si + 1]
    h["steps"][si]["calls"] = h["steps"][si]["calls"][:ci + 1]
    target = h["steps"][si]["calls"][ci]

    def fails(cand):
        try:
            tsi = len(cand["steps"]) - 1
            tci = len(cand["steps"][tsi]["calls"]) - 1
            return any(k == cls for _, _, _, k, _ in held_eval(cand, only=(tsi, tci)))
        except Exception:  # noqa
            return False
    budget = 60
    # same-function calls are the likely carriers of the state: first try to drop everything else at once
    cand = copy.deepcopy(h)
    for k, step in enumerate(cand["steps"]):
        keep = [c for c in step["calls"] if c["f"] == target["f"]]
        step["calls"] = keep if k < si else (keep[:-1] + [target] if keep and keep[-1] == target else keep + [target])
    if fails(cand):
        h = cand
    for k in range(len(h["steps"])):
        j = 0
        while j < len(h["steps"][k]["calls"]) - (1 if k == len(h["steps"]) - 1 else 0) and budget > 0:
            cand = copy.deepcopy(h)
            del cand["steps"][k]["calls"][j]
            budget -= 1
            if fails(cand):
                h = cand
            else:
                j += 1
    # drop whole intermediate steps whose edit is not needed
    k = 1
    while k < len(h["steps"]) - 1 and budget > 0:
        cand = copy.deepcopy(h)
        del cand["steps"][k]
        budget -= 1
        if fails(cand):
            h = cand
        else:
            k += 1
    return h


def run_held(ctx, n):
    rng = ctx.rng
    for i in range(n):
        h = held_case(rng, i)
        res = held_eval(h)
        ncalls = sum(len(s["calls"]) for s in h["steps"])
        ctx.evaluations += ncalls
        ctx.stats["held-object:sequences"] += 1
        ctx.stats["held-object:calls"] += ncalls
        ctx.stats["held-object:edits"] += sum(1 for s in h["steps"] if s.get("edit"))
        for s in h["steps"]:
            for op in (s.get("edit") or []):
                ctx.stats["held-object:op:" + op[0]] += 1
        ctx.nontrivial.add(jhash(h))
        seen = set()
        for si, ci, c, cls, detail in res:
            site = SITE[c["f"]]
            if (site, cls) in seen:
                continue
            seen.add((site, cls))
            known = any(v["site"] == site and v["failure_class"] == cls for v in ctx.violations)
            small, d2 = h, detail
            if not known:
                cand = shrink_held(h, si, ci, cls)
                tsi = len(cand["steps"]) - 1
                tci = len(cand["steps"][tsi]["calls"]) - 1
                got = [d for _, _, _, k, d in held_eval(cand, only=(tsi, tci)) if k == cls]
                if got:
                    small, d2, si, ci = cand, got[0], tsi, tci
            ctx.violation(site, cls, {"f": c["f"], "held": small, "at": [si, ci], "python": held_python(small, si, ci)}, detail=d2)


def load_corpus():
    out = []
    for p in sorted(glob.glob(os.path.join(VERIF, "corpus", "C14", "*.json"))):
        try:
            j = json.load(open(p))
        except Exception:  # noqa
            continue
        for c in (j if isinstance(j, list) else [j.get("case", j)]):
            if isinstance(c, dict) and "f" in c and ("net" in c or "dinet" in c):
                out.append({k: v for k, v in c.items() if k != "python"})
    return out


def replay(ctx, path):
    j = json.load(open(path))
    c = {k: v for k, v in j.get("case", j).items() if k != "python"}
    if "held" in c:                              # a held-object sequence: predicate-only
        res = held_eval(c["held"], only=tuple(c["at"]))
        print(held_python(c["held"], *c["at"]))
        for _, _, rq, cls, detail in res:
            print(f"STILL FAILS: {SITE[rq['f']]} {cls}: {detail}")
        if not res:
            print("the call on the live object agrees with the predicate and with a fresh network")
        return 1 if res else 0
    if c.get("cls") or c.get("large") or c.get("predicate_only"):
        r, nodes, edges = impl(c, force=True)
        fails = pred(c, r, nodes, edges)
        print(json.dumps({"request": c, "impl": r}, default=repr)[:2000])
        for cls, detail in fails:
            print(f"STILL FAILS: {SITE[c['f']]} {cls}: {detail}"[:700])
        return 1 if fails else 0
    ok = build_and_audit(ctx, "XgiModel.Props.C14", ["XgiModel.C14.Drive"])
    dis = run_batch(ctx, [c], shrink=False)
    r, _, _ = impl(c)
    print(json.dumps({"request": c, "impl": r, "model_disagrees": bool(dis)}, default=repr)[:2000])
    fn.conclude(ctx, ok, dis)
    return finish(ctx, trusted_base=TRUSTED_COMMON)


def run(ctx):
    ok = build_and_audit(ctx, "XgiModel.Props.C14", ["XgiModel.C14.Drive"])
    rng = ctx.rng
    ctx.rule = ("hypergraphs from harness/fn.py generators plus nested families, disjoint unions and chains (<= 8 nodes, "
                "<= 10 edges; isolated nodes, singleton edges, multi-edges, nested edges, and in ~35 % of them one or two EMPTY "
                "hyperedges built by add_edge([]) or remove_node_from_edge(remove_empty=False); int / str / mixed / negative labels "
                "and edge IDs, shuffled insertion orders); per hypergraph: components, is_connected, number/largest/node component, "
                "single-source and all-pairs distances, clustering, to_graph, to_line_graph for s in {1,2,3} x weights in "
                "{None, absolute, normalized} (plus s in {0,-1} x weights on ~30 % and s=4), to_bipartite_graph with index=True and "
                "with the default index=False, to_encapsulation_dag for all/immediate/empirical, missing node / invalid option "
                "requests; DiHypergraphs (<= 6 nodes, <= 5 edges, overlapping / empty tails and heads): to_bipartite_graph with and "
                "without index; non-trivial = distinct (request, result) on a network with an edge of >= 2 members.  PREDICATE-ONLY "
                "families (networkx predicate on the implementation, nothing sent to the Lean driver): the same generators relabelled into "
                "pools with str()-colliding labels (1 / '1'), tuple labels / tuple edge IDs and integers above 2**53; SimplicialComplex "
                "instances (add_simplex; judged on the instance's own nodes / edges.members()) and instances of a trivial Hypergraph "
                "subclass; six large networks (70-100 nodes or 130-140 parallel hyperedges, labels above 2**53) with the cheap requests; "
                "100 held-object sequences: all requests on ONE live object, up to three edits of that object (count-preserving and "
                "ordinary), all requests again after each edit, each answer judged by the predicate on the current structure and "
                "against the same call on a freshly built equal network")
    cases = load_corpus()
    ctx.stats["corpus_cases"] = len(cases)
    corpus_ponly = [c for c in cases if c.get("cls") or c.get("large") or c.get("predicate_only")]     # never sent to the driver
    cases = [c for c in cases if not (c.get("cls") or c.get("large") or c.get("predicate_only"))]
    n_h = ctx.n(1000, 12000)
    for _ in range(n_h):
        nodes, edges = gen_any(rng)
        ctx.stats["hypergraphs"] += 1
        if any(not ms for _, ms in edges):
            ctx.stats["hypergraphs_with_empty_edge"] += 1
        if len(list(nx.connected_components(reference(nodes, edges)[1]))) > 1:
            ctx.stats["hypergraphs_disconnected"] += 1
        cases += requests_for(nodes, edges, rng)
    for _ in range(ctx.n(400, 5000)):
        nodes, edges = gen_dihypergraph(rng)
        ctx.stats["dihypergraphs"] += 1
        if any(set(t) & set(h) for _, t, h in edges):
            ctx.stats["dihypergraphs_with_node_in_tail_and_head"] += 1
        cases += direqs_for(nodes, edges)
    dis = []
    for i in range(0, len(cases), 40000):
        dis += run_batch(ctx, cases[i:i + 40000])
    # ---- predicate-only families (never sent to the Lean driver)
    run_batch(ctx, corpus_ponly, model=False, tag="corpus")
    xl = xlabel_cases(rng, ctx.n(120, 1500))
    for c in xl:
        c["predicate_only"] = True
    run_batch(ctx, xl, model=False, tag="colliding/tuple/big-int labels")
    run_batch(ctx, class_cases(rng, ctx.n(120, 1500)), model=False, tag="SimplicialComplex/subclass")
    for i in range(ctx.n(6, 30)):
        nodes, edges = gen_large(rng, i)
        ctx.stats["large_networks"] += 1
        ctx.stats["large_networks:max_nodes"] = max(ctx.stats["large_networks:max_nodes"], len(nodes))
        ctx.stats["large_networks:max_edges"] = max(ctx.stats["large_networks:max_edges"], len(edges))
        run_batch(ctx, large_requests(rng, nodes, edges, i), model=False, tag="large")
    run_held(ctx, ctx.n(100, 1200))
    if not ctx.quick:
        small = []
        count = 0
        for nodes, edges in fn.all_small_hypergraphs(4, 3):
            count += 1
            small += requests_for(nodes, edges, full=True)
            if len(edges) >= 1:
                for vn, ve in variants(nodes, edges):
                    small += requests_for(vn, ve, full=False, rng=rng)
        ctx.stats["small_scope_hypergraphs"] = count
        for i in range(0, len(small), 20000):
            dis += run_batch(ctx, small[i:i + 20000])
        ctx.exhaustive = True
        ctx.extra["exhaustive_space"] = ("correspondence and predicate on every hypergraph with nodes {0,1,2,3} and <= 3 distinct "
                                         f"non-empty edges ({count} hypergraphs), every node as source / component query, every s in "
                                         "{-1..4} sampled as in the rule, weights, subset_types, index; plus a mixed-label (reversed order), "
                                         "a multi-edge and an empty-hyperedge variant of each")

    def search():
        extra = []
        for _ in range(ctx.n(600, 4000)):
            nodes, edges = gen_any(rng)
            extra += requests_for(nodes, edges, rng)
            if rng.random() < 0.3:
                extra += direqs_for(*gen_dihypergraph(rng))
        funcs = {c["f"] for c, _, _ in dis}
        if funcs:
            extra = [c for c in extra if c["f"] in funcs] or extra
        for c in extra:
            r, nodes, edges = impl(c)
            ctx.evaluations += r["out"] != "skipped"
            for cls, detail in pred(c, r, nodes, edges):
                ctx.violation(SITE[c["f"]], cls, dict(c, python=python_replay(c)), detail=detail)

    fn.conclude(ctx, ok, dis, search)
    ctx.assumptions = [
        "model and correspondence: node and edge IDs are int / str; tuple IDs, str()-colliding pools, integers above 2**53, SimplicialComplex / "
        "subclass instances, networks above the size guard and held-object sequences are generated but judged by the networkx predicate alone "
        "(never sent to the driver); bool / float IDs are not generated",
        "a SimplicialComplex is judged as the hypergraph of its own faces (nodes and edges.members() as the instance reports them)",
        "held-object sequences: the reference structure after an edit is read from the object's own views (H.nodes, H.edges.members()); an edit the "
        "library refuses ends the sequence",
        "empty hyperedges are generated and inside model and theorems: vertices of the line graph / bipartite graph / DAG, never "
        "linked for s >= 1, invisible to components / distances / projection / clustering; the DAG definition used by the predicate "
        "is 'b is a NON-EMPTY strict subset of a' (what the code does: candidates are found through shared nodes)",
        "line graph for s <= 0: every pair of hyperedges is linked; weights='normalized' is 0/0 when such a pair contains an empty "
        "hyperedge - the ZeroDivisionError the code raises there (and only there) is not counted as a violation",
        "'empirical' encapsulation DAG read as: keep a->b iff |a| is minimal among the strict supersets of b and |b| maximal among the strict subsets of a (both filters of empirical_subsets_filter, decided on the unfiltered DAG)",
        "to_bipartite_graph(index=False) returns no index dicts: vertex i is read as the i-th node of H.nodes and vertex n+j as the j-th edge of H.edges",
        "directed networks: only to_bipartite_graph has a DiHypergraph branch among the anchored functions; the other functions are checked on Hypergraphs only",
        "numpy/scipy/networkx appear in the model as the pure functions they are documented to be; floats compared with |x - p/q| <= 1e-9 max(1,|p/q|)",
        f"size guard: no network with more than {MAX_NODES} nodes or {MAX_EDGES} edges is sent to the (interpreted, ~cubic) model driver; driver timeout {DRIVER_TIMEOUT} s, process group killed on timeout (harness/core.py)",
    ]
    return finish(ctx, trusted_base=TRUSTED_COMMON + [
        "networkx (connected_components, single_source_shortest_path_length, clustering) as second opinion inside the predicate",
        "harness/props/c14.py: canonicaliser for networkx graphs, brute-force definitions of the converters",
    ])
