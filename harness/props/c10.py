"""C10 — conversions between representations preserve the incidence relation.

For every generated network (three classes; isolated nodes, empty edges, multi-edges, explicit IDs, attributes at
three levels) and every converter pair: run `to_X` then `from_X` on the real code, evaluate the property predicate on
the result (incidence set with direction, labels / edge order, attributes, class), and compare both the intermediate
representation and the round-tripped network with the Lean model's (`Drivers/C10.lean`).  Bipartite graphs are also
built by hand in random vertex / edge insertion orders and orientations; class-to-class constructors are included.
"""
import copy
import glob
import json
import os
import warnings

import xgi

from .. import c10_lib as L
from .. import c10_wide as W
from ..core import TRUSTED_COMMON, VERIF, Infra, build_and_audit, canon, finish, idkey, jhash, run_driver
from ..fn import all_small_hypergraphs, conclude, enc_net

SITE = {"hyperedge_list": "from_hyperedge_list", "hyperedge_dict": "from_hyperedge_dict",
        "bipartite_edgelist": "from_bipartite_edgelist", "incidence_labelled": "from_incidence_matrix",
        "incidence_unlabelled": "from_incidence_matrix", "bipartite_graph": "from_bipartite_graph",
        "dataframe": "from_bipartite_pandas_dataframe", "hypergraph_dict": "from_hypergraph_dict",
        "hif_dict": "from_hif_dict", "from_bipartite_graph": "from_bipartite_graph"}
CLASS_SITE = {"hg": "to_hypergraph", "dhg": "to_dihypergraph", "sc": "to_simplicial_complex"}

NODES_UNORDERED = {"hyperedge_list", "hyperedge_dict", "bipartite_edgelist", "hif_dict"}
EDGES_UNORDERED = {"dataframe", "hif_dict"}


def site_of(case):
    if case["f"] == "class":
        return CLASS_SITE[case["target"]]
    if case.get("via"):      # the constructor / the to_* converter it delegates to
        return CLASS_SITE["dhg" if case["f"].startswith("dimembers") else (case.get("using") or "hg")]
    return SITE[case["f"]]


# ----------------------------------------------------------------------------- canonical forms for the comparison

def norm_rep(f, rep):
    if rep is None:
        return None
    rep = copy.deepcopy(rep)
    if f == "bipartite_edgelist":
        return L.sort_runs(rep, key=lambda t: [t[1]] + t[2:])
    if f == "dataframe":
        return L.sort_runs(rep, key=lambda t: t[0])
    if f == "hif_dict":
        rep["nodes"] = sorted(rep["nodes"], key=lambda p: idkey(p[0]))
        rep["edges"] = sorted(rep["edges"], key=lambda p: idkey(p[0]))
        rep["incidences"] = L.sort_runs(rep["incidences"], key=lambda t: [t[0]] + t[2:])
        return rep
    if f in ("bipartite_graph", "from_bipartite_graph"):
        rep["edges"] = L.sort_runs(rep["edges"], key=lambda t: t[0])
        return rep
    return rep


def norm_rt(f, rt, kept):
    """order-insensitive where the order comes from Python set iteration; a simplicial-complex result is split into
    the edges kept by ID (first `kept`, in order) and the automatically created faces (as a set of member sets)"""
    rt = copy.deepcopy(rt)
    rt.pop("kept", None)
    if f in NODES_UNORDERED or (f == "dataframe" and rt["cls"] == "sc"):
        rt["nodes"] = sorted(rt["nodes"], key=idkey)
    rt["nattr"] = sorted(rt["nattr"], key=lambda p: idkey(p[0]))
    if rt["cls"] == "sc" and kept is not None:
        rest = rt["edges"][kept:]
        rt["edges"] = rt["edges"][:kept]
        rt["face_ids"] = [e[0] for e in rest]
        rt["faces"] = sorted((e[1] for e in rest), key=lambda ms: [idkey(x) for x in ms])
        rt["kept"] = kept
        if f in ("hif_dict", "dataframe"):     # edge order follows the iteration order of Python sets
            rt["edges"] = sorted(rt["edges"], key=lambda e: idkey(e[0]))
    elif f in EDGES_UNORDERED:
        rt["edges"] = sorted(rt["edges"], key=lambda e: idkey(e[0]))
    rt["eattr"] = sorted(rt["eattr"], key=lambda p: idkey(p[0]))
    return rt


def kept_of_case(case):
    if case["f"] in ("class", "hif_dict", "dataframe"):
        return len(L.kept_for_sc(case["net"]["edges"]))
    return None


def same(case, r, m):
    """canonical implementation result vs canonical model response"""
    f = case["f"]
    if f == "hypergraph_dict" and (case.get("opt") or {}).get("max_order"):
        # the model answered for the network without the edges above max_order: only the network read back is comparable
        # (the dict written, and a refusal by the writer, concern the unfiltered network: the predicate's business)
        if r.get("out") != "ok":
            return True
        return m.get("out") == "ok" and norm_rt(f, r["rt"], None) == norm_rt(f, m["rt"], None)
    if r.get("out") != m.get("out"):
        return False
    if r["out"] != "ok":
        return True
    if norm_rep(f, r.get("rep")) != norm_rep(f, m.get("rep")):
        return False
    return norm_rt(f, r["rt"], kept_of_case(case) if r["rt"]["cls"] == "sc" else None) == \
        norm_rt(f, m["rt"], m["rt"].get("kept"))


# ----------------------------------------------------------------------------- running cases

def run_impl(case):
    try:
        if case["f"] == "from_bipartite_graph":
            return L.convert_graph(case)
        return L.convert(case)
    except Infra:
        raise
    except Exception as ex:  # noqa
        return {"out": L.err_kind(ex), "msg": f"{type(ex).__name__}: {ex}"[:200]}


SAME_AS_DEFAULT = {"names", "reordered", "renamed", "positions-swapped"}


def request_of(case):
    """the driver request, or None when the model has no answer for this way of calling the converter (the predicate
    alone decides then).  A hand-built graph is sent as networkx presents it (vertex order with flags, `G.edges`); an
    option whose documented effect is expressible on the input is sent as the default call on the transformed input."""
    if case["f"] == "from_bipartite_graph":
        with warnings.catch_warnings():
            warnings.simplefilter("ignore")
            g = L.graph_rep(L.build_graph(case["graph"]))
        return {"f": "from_bipartite_graph", "nx": g}
    if case.get("directed_undocumented"):
        return None
    opt = case.get("opt")
    f = case["f"]
    if f.startswith("dimembers"):
        return None
    if f == "dataframe" and case.get("using") == "sc":
        return {"f": "dataframe_sc", "net": case["net"]}     # every route reads the same rows
    if case.get("via"):
        # another public route to the same reader: the model's answer for the from_* function / the constructor
        if case.get("using") == "sc":
            return None
        return {k: v for k, v in case.items() if k not in ("via", "using")}
    if not opt:
        return case
    plain = {k: v for k, v in case.items() if k != "opt"}
    if f == "hypergraph_dict" and "max_order" in opt:
        a = case["net"]
        keep = [i for i, e in enumerate(a["edges"]) if not opt["max_order"] or len(L.members_of(e)) <= opt["max_order"] + 1]
        return dict(plain, net=dict(a, edges=[a["edges"][i] for i in keep], eattr=[a["eattr"][i] for i in keep]))
    if (f == "hyperedge_list" and "max_order" in opt and not case.get("using")) or opt == {"index": False} \
            or (f == "dataframe" and opt.get("columns") in SAME_AS_DEFAULT):
        return plain      # the option must not change the result
    return None


def failure_classes(case):
    return [k for k, _ in L.pred(case, run_impl(case))]


def shrink(case, cls, budget=150):
    """greedy: drop edges, nodes, attributes (or graph vertices / edges) while the same clause still fails"""
    cur = copy.deepcopy(case)
    auto_types = ("net" in case and case["f"] == "hypergraph_dict"
                  and case.get("nodetype") == L.nodetype_for([L.dec_id(n) for n in case["net"]["nodes"]])
                  and case.get("edgetype") == L.nodetype_for([L.dec_id(e[0]) for e in case["net"]["edges"]]))

    def still(c):
        nonlocal budget
        budget -= 1
        try:
            return cls in failure_classes(c)
        except Exception:  # noqa  (generator defect on an inconsistent candidate)
            return False

    def candidates(c):
        if "graph" in c:
            g = c["graph"]
            for i in range(len(g["eorder"])):
                d = copy.deepcopy(c); del d["graph"]["eorder"][i]; yield d
            for i, (v, _) in enumerate(g["vorder"]):
                if not any(v in e for e in g["eorder"]):
                    d = copy.deepcopy(c); del d["graph"]["vorder"][i]; yield d
            return
        a = c["net"]
        if a["cls"] == "sc":
            return  # the edge list of a simplicial complex must stay closed; keep the generated case
        for i in range(len(a["edges"])):
            d = copy.deepcopy(c); del d["net"]["edges"][i]; del d["net"]["eattr"][i]; yield d
        for i, n in enumerate(a["nodes"]):
            if not any(n in part for e in a["edges"] for part in e[1:]):
                d = copy.deepcopy(c); del d["net"]["nodes"][i]; del d["net"]["nattr"][i]; yield d
        for i, e in enumerate(a["edges"]):
            for k in range(1, len(e)):
                for j in range(len(e[k])):
                    d = copy.deepcopy(c); del d["net"]["edges"][i][k][j]; yield d
        for key in ("nattr", "eattr"):
            for i, (_, at) in enumerate(a[key]):
                if at:
                    d = copy.deepcopy(c); d["net"][key][i][1] = []; yield d
        if a["gattr"]:
            d = copy.deepcopy(c); d["net"]["gattr"] = []; yield d
        for key in ("nattr", "eattr"):
            for i, (_, at) in enumerate(a[key]):
                for j in range(len(at) if len(at) > 1 else 0):
                    d = copy.deepcopy(c); del d["net"][key][i][1][j]; yield d

    changed = True
    while changed and budget > 0:
        changed = False
        for d in candidates(cur):
            if budget <= 0:
                break
            if "net" in d and d["f"] == "hypergraph_dict" and auto_types:
                d["nodetype"] = L.nodetype_for([L.dec_id(n) for n in d["net"]["nodes"]])
                d["edgetype"] = L.nodetype_for([L.dec_id(e[0]) for e in d["net"]["edges"]])
            if still(d):
                cur, changed = d, True
                break
    return cur


def run_cases(ctx, cases, label="C10", record=True):
    """implementation + predicate on every case, then the model; returns the disagreements"""
    results = []
    for c in cases:
        r = run_impl(c)
        results.append(r)
        ctx.evaluations += 1
        ctx.stats["f:" + c["f"] + (":" + c["target"] if c["f"] == "class" else "")] += 1
        if "net" in c:
            ctx.stats["class:" + c["net"]["cls"]] += 1
        if c.get("opt"):
            ctx.stats["option:" + c["f"] + ":" + ",".join(f"{k}={v}" for k, v in sorted(c["opt"].items()))] += 1
        if c.get("directed_undocumented"):
            kind = L.classify_directed(c, r)
            ctx.stats[f"directed_undocumented:{c['f']}:{kind}"] += 1
            ctx.extra.setdefault("directed_on_undirected_only_converters", {}).setdefault(c["f"], {})
            d = ctx.extra["directed_on_undirected_only_converters"][c["f"]]
            d[kind] = d.get(kind, 0) + 1
        if str(r.get("out", "")).startswith("err") and not c.get("directed_undocumented"):
            ctx.stats["impl_" + r["out"]] += 1
        net = c.get("net")
        if (net and any(len(L.members_of(e)) >= 2 for e in net["edges"])) or (c.get("graph") and len(c["graph"]["eorder"]) >= 2):
            ctx.nontrivial.add(jhash(c))
        fails = L.pred(c, r)
        r["_pred_failed"] = bool(fails)
        seen = set()
        for cls, detail in fails:
            if cls in seen:
                continue
            seen.add(cls)
            known_before = any(v["site"] == site_of(c) and v["failure_class"] == cls for v in ctx.violations)
            small = c if known_before else shrink(c, cls)
            ctx.violation(site_of(c), cls, small, detail=detail if small is c else (dict(L.pred(small, run_impl(small))).get(cls, detail)))
        if record and jhash(c) in ctx.nontrivial and (c.get("opt") or len(ctx.samples) < 2):
            ctx.sample({"request": c, "impl": {k: v for k, v in r.items() if not k.startswith("_")}}, cap=3)
    reqs = [request_of(c) for c in cases]
    sent = [i for i, q in enumerate(reqs) if q is not None]
    answers = run_driver("C10", [reqs[i] for i in sent]) if sent else []
    resps = [None] * len(cases)
    for i, m in zip(sent, answers):
        resps[i] = m
    dis = []
    for c, r, m in zip(cases, results, resps):
        if m is None:
            ctx.stats["predicate_only"] += 1
            continue
        if m.get("out") == "bad-op":
            raise Infra(f"model C10 rejected request (harness defect): {json.dumps(c)[:300]}")
        if m.get("out") == "unmodelled":
            ctx.stats["unmodelled"] += 1
            continue
        if r["_pred_failed"]:
            ctx.stats["not_compared_predicate_failed"] += 1  # the model describes the repaired behaviour
            continue
        ctx.traces += 1
        mc = canon(m)
        if not same(c, r, mc):
            dis.append((c, r, mc))
            ctx.stats["disagree:" + c["f"]] += 1
    if dis:
        ctx.extra.setdefault("disagreements", [])
        for c, r, mc in dis[:5]:
            ctx.extra["disagreements"].append({"request": c, "impl": {k: v for k, v in r.items() if not k.startswith("_")}, "model": mc})
        ctx.extra["disagreements_total"] = ctx.extra.get("disagreements_total", 0) + len(dis)
        ctx.broken.append(f"correspondence {label}: model and implementation differ on {len(dis)} of {len(cases)} cases "
                          f"(converters: {sorted({c['f'] for c, _, _ in dis})})")
    return dis


# ----------------------------------------------------------------------------- case sources

def bare(nodes, edges, cls="hg", gattr=None):
    a = enc_net(nodes, edges)
    a["edges"] = [[e, sorted(ms, key=idkey)] for e, ms in a["edges"]]
    return {"cls": cls, "nodes": a["nodes"], "edges": a["edges"], "nattr": [[n, []] for n in a["nodes"]],
            "eattr": [[e[0], []] for e in a["edges"]], "gattr": gattr or []}


def str_first_label(ints):
    """a string label that Python's set iteration puts *before* the given ints in this process (string hashes are
    per-process), so that the first edge of a hyperedge list starts with a string"""
    for s in "abcdefghijklmnopqrstuvwxyz":
        H = xgi.Hypergraph()
        H.add_edge(ints + [s])
        if isinstance(list(xgi.to_hyperedge_list(H)[0])[0], str):
            return s
    return None


def fixed_cases(rng):
    """regression inputs for the branches found while reading the code"""
    out = []
    nets = [
        bare([], []),                                               # the empty network
        bare([1, 2], []),                                           # isolated nodes only
        bare([1, 2], [(0, []), (1, [1, 2])]),                       # first edge empty
        bare([1], [(5, [])]),                                       # only an empty edge
        bare([0, 1, 2], [(1, [0, 1]), (0, [1, 2])]),                # edge IDs in decreasing order
        bare([3, 1, 2], [("x", [1, 2]), (0, [3]), (2, [1, 2])]),    # multi-edge, string edge ID
        bare([1, "1"], [(0, [1])]),                                 # colliding string casts
        bare([1, 2, 3], [(1, [1, 2]), ("1", [2, 3])]),              # colliding edge casts
        bare(["10", "9"], [("e", ["10", "9"])]),                    # digit strings
        bare([1, 2, 3], [(0, [1, 2, 3])], gattr=[["name", "foo"]]),
    ]
    for ints in ([7], [6, 7]):   # first edge a mixed set whose iteration starts with a str (2 and 3 members)
        s = str_first_label(ints)
        if s is not None:
            nets.append(bare(ints + [s, 2], [(0, ints + [s]), (1, [2, 7])]))
    for a in nets:
        out += L.cases_for(rng, a)
    # attribute keys spelled like parameters of add_node / add_edge (`**attr` forwarding), on an isolated node, an empty
    # edge, a member node and a non-empty edge; non-scalar values
    ak = bare([1, 2, 9], [(0, [1, 2]), ("x", [])], gattr=[["incoming_data", 3], ["name", "g"]])
    ak["nattr"] = [[1, [["node", 3]]], [2, []], [9, [["node", "a"], ["attr", {"$o": "[1, 2]"}]]]]
    ak["eattr"] = [[0, [["members", 1], ["weight", {"$o": "0.5"}]]], ["x", [["idx", 1], ["members", "r"], ["edge", None]]]]
    out += L.cases_for(rng, ak)
    out += L.cases_for(rng, dict(ak, cls="dhg", edges=[[0, [1], [2]], ["x", [], []]]))
    out += L.cases_for(rng, dict(ak, cls="sc", edges=[[0, [1, 2]]], eattr=[[0, [["idx", 7], ["members", "m"]]]]))
    d = {"cls": "dhg", "nodes": [1, 2, 3], "edges": [[0, [1, 2], [3]], [1, [], []], [2, [3], [3]]],
         "nattr": [[1, []], [2, [["c", "r"]]], [3, []]], "eattr": [[0, [["w", 2]]], [1, []], [2, []]], "gattr": [["name", "d"]]}
    out += L.cases_for(rng, d)
    out += L.cases_for(rng, {"cls": "dhg", "nodes": [4], "edges": [], "nattr": [[4, []]], "eattr": [], "gattr": []})
    # the F8 replay of DESIGN §9: edge-vertices inserted first
    out.append({"f": "from_bipartite_graph", "expect": "ok",
                "graph": {"directed": False, "vorder": [["a", 1], ["b", 1], [1, 0], [2, 0], [3, 0]],
                          "eorder": [[1, "a"], [2, "a"], [2, "b"], [3, "b"]]}})
    out.append({"f": "from_bipartite_graph", "expect": "ok",
                "graph": {"directed": False, "vorder": [[1, 0], ["a", 1]], "eorder": [["a", 1]]}})
    return out


def load_corpus(wide=False):
    """corpus/C10/*.json; the second-round families (`"f": "wide"`, predicate only) are kept apart"""
    cases = []
    for f in sorted(glob.glob(os.path.join(VERIF, "corpus", "C10", "*.json"))):
        try:
            j = json.load(open(f))
            c = j["case"] if "case" in j else j
        except Exception as ex:  # noqa
            raise Infra(f"unreadable corpus file {f}: {ex}")
        if (c.get("f") == "wide") == wide:
            cases.append(c)
    return cases


def generated(rng, n):
    cases = []
    for i in range(n):
        a = L.gen_anet(rng, rng.choice(["hg", "hg", "dhg", "sc"]))
        cases += L.cases_for(rng, a, options=5)
        cases.append(L.gen_graph_case(rng, a if a["cls"] != "sc" and rng.random() < 0.5 else None, invalid=rng.random() < 0.15))
    return cases


def exhaustive_cases(rng, n_nodes, max_edges):
    for nodes, edges in all_small_hypergraphs(n_nodes, max_edges):
        a = bare(nodes, edges)
        yield from L.cases_for(rng, a)
        yield L.gen_graph_case(rng, a)


def run(ctx):
    ok = build_and_audit(ctx, "XgiModel.Props.C10", ["XgiModel.C10.Drive"])
    ctx.rule = ("networks of the three classes from one PRNG (<=6 nodes, <=6 edges; isolated nodes, empty edges, multi-edges, "
                "int IDs incl. 0 / negative / decreasing, string and mixed IDs; attributes on nodes, edges and the network whose KEYS "
                "include the parameter names node / idx / members / attr / edge / n / weight / name / self ... and whose VALUES include "
                "floats, bools, lists and dicts) x every converter pair (hyperedge list/dict, bipartite edge list, labelled and unlabelled "
                "incidence matrix sparse/dense, bipartite graph with index maps, dataframe, hypergraph dict, HIF dict, the three class "
                "constructors) x an option axis (max_order, one label list only, index=False, dual=True, column names / positions / "
                "exchanged columns, create_using, nodetype/edgetype casts that really change the IDs: digit strings -> int, int -> str; "
                "the other public routes from a representation or a network to a network: the class constructor Cls(rep), the converters "
                "it delegates to called directly - xgi.to_hypergraph / to_dihypergraph / to_simplicial_complex(rep) - also with "
                "create_using = the class / an instance holding a stale node and a stale attribute; a simplicial complex read back "
                "into a simplicial complex from its hyperedge list / dict / dataframe; the directed hyperedge dict / list "
                "DiEdgeView.dimembers() read back by DiHypergraph(...) / to_dihypergraph), "
                "a DiHypergraph given to every converter (also those documented for undirected input: outcome classified and recorded), "
                "plus hand-built networkx graphs in random vertex/edge insertion orders and (node,edge)/(edge,node) orientations incl. "
                "invalid ones; non-trivial = distinct case whose network has an edge with >=2 members.  Second round (harness/c10_wide.py, "
                "predicate only): label pools tuple / nested and mixed tuple / tuple of str / numpy int64, int32 / float / above 2**53 / "
                "str()-colliding (1 and '1') for nodes and edge IDs x every converter pair and class route; member containers list / tuple / set / "
                "frozenset / dict keys / dict values / generator / iterator / ndarray, bipartite edge lists as lists / tuple / 2-D object array / "
                "rows as arrays, 13 matrix containers (ndarray, np.matrix, csr/csc/coo/lil array and matrix, int8 / bool / float dtypes) x label "
                "lists as list / tuple / 1-D object array, dataframes filtered / concatenated / shuffled / string-indexed / offset / reversed index; "
                "trivial subclasses MyH / MyD / MyS as sources; per run two networks with 70-90 nodes, 130-140 parallel edges, one edge above 64 "
                "members, node labels and an edge ID above 2**53; held objects: all to_* functions, one edit of the same object (same-ID "
                "replacement, member exchange, add edge, remove node, remove edge), all to_* functions again vs a freshly built equal network; "
                "DiEdgeView.dimembers() list / dict / tuple pairs through DiHypergraph(...) and to_dihypergraph with no / class / instance create_using")
    cases = load_corpus() + fixed_cases(ctx.rng) + generated(ctx.rng, ctx.n(400, 10000))
    dis = run_cases(ctx, cases)
    if not ctx.quick:
        ex = list(exhaustive_cases(ctx.rng, 4, 3))
        dis += run_cases(ctx, ex, label="C10 exhaustive small scope", record=False)
        ctx.exhaustive = True
        ctx.extra["exhaustive_scope"] = ("correspondence + predicate on every hypergraph with 4 nodes and <=3 distinct non-empty edges "
                                         f"x every converter pair ({len(ex)} cases); validation of the model, not the proof")

    # second round: the families outside the first generator's regime (labels, containers, subclasses, size, held objects,
    # directed lists / dicts through to_dihypergraph) - predicate on the real code only
    def wide(k):
        W.run_wide(ctx, W.gen_cases(ctx.rng, n_labels=ctx.n(120, 1500) // k, n_containers=ctx.n(80, 1000) // k, n_classes=ctx.n(45, 600) // k,
                                    n_held=ctx.n(150, 2000) // k, n_big=ctx.n(2, 8)))

    W.run_wide(ctx, load_corpus(wide=True), do_shrink=False)
    wide(1)

    def search():
        run_cases(ctx, generated(ctx.rng, ctx.n(400, 8000)), label="C10 targeted search", record=False)
        wide(2)

    conclude(ctx, ok, dis, search)
    ctx.assumptions = [
        "model-tied families (first round): IDs int/str only; attribute keys are strings, values None / int / float / bool / str / "
        "lists / str-keyed dicts (the model carries non-int/str values as opaque canonical JSON text).  Predicate-only families (second round, "
        "coverage.distribution 'wide:*'): tuple, numpy-integer, float, above-2**53 and str()-colliding IDs, no attributes; bool and None IDs are "
        "not generated (True == 1 collides; None is refused by the library)",
        "second-round families carry no attributes and are never sent to the model; the hypergraph dict is judged there only for labels whose str() "
        "casts are distinct and whose member sets can be sorted (the refusals are the first round's modelled answers); numpy arrays as member "
        "containers are generated for every target class (a SimplicialComplex target fails on the unchanged tree: listed finding); a list whose "
        "first edge is not a set and starts with an iterable label is ambiguous for the library's format sniffer (review 2, V4): failures on "
        "exactly those lists are reported under the one class first-edge-read-as-members-id-pair (listed finding)",
        "held-object family: the second call is compared with the same call on a network rebuilt from the edited object's own nodes / edges "
        "(IDs included; automatic face IDs of a simplicial-complex result are compared as member sets); only to_* functions are held - the "
        "from_* side builds new objects",
        "directed networks, decided per converter by its docstring: to_bipartite_edgelist ('H : Hypergraph, SimplicialComplex, or "
        "DiHypergraph object'), to_bipartite_graph ('H: xgi.Hypergraph or xgi.DiHypergraph'), to_hif_dict ('H: Hypergraph, DiHypergraph, or "
        "SimplicialComplex object') and the class constructors are checked with direction.  The other converters document undirected "
        "input only - " + "; ".join(sorted(set(L.UNDIRECTED_ONLY_DOC.values()))) + " - so a DiHypergraph is outside their documented domain: "
        "each is still called with every generated DiHypergraph and the outcome is recorded in coverage.directed_on_undirected_only_converters "
        "as 'raises-<Type>' (to_incidence_matrix: KeyError 'in'), 'undirected-shadow' (hyperedge list / dict, hypergraph dict: the round trip "
        "of the underlying undirected network tail | head, direction - and for the hypergraph dict the class - silently dropped: NOT the "
        "statement's 'with direction', accepted here only because the input is undocumented) or 'garbage'; only 'garbage' (accepted without "
        "error and not even the underlying undirected network: to_bipartite_pandas_dataframe gives the edges 'in' and 'out') is reported, as "
        "the finding directed-input-garbage (listed in known_findings/C10.json: a two-column dataframe cannot carry direction, no small repair)",
        "to_hypergraph_dict: colliding str() casts are refused (XGIError) and sorted() of a member set mixing int and str raises "
        "TypeError - both are the modelled, documented answers, not round-trip failures; IDs come back through nodetype/edgetype: int "
        "gives ints (also from digit strings), no cast gives the str() of the ID",
        "options: max_order on from_hypergraph_dict drops the edges above the order (predicate and model on the network without them); "
        "max_order on from_hyperedge_list without create_using, index=False, column names / reordered columns must not change the result "
        "(compared with the model's default answer); one label list, dual=True, exchanged columns, create_using, HIF casts are decided by "
        "the predicate only (coverage.distribution 'predicate_only'); from_bipartite_graph(dual=True) on a DiGraph raises AttributeError "
        "(DiHypergraph has no dual()) and is not generated",
        "routes: a converter called through the class constructor, through xgi.to_hypergraph / to_dihypergraph / to_simplicial_complex "
        "directly, or with create_using = class / instance must give what the from_* function gives (same predicate, same model answer); "
        "a documented 'Returns: Hypergraph object' that is None is the failure class converter-returns-none; an instance given as "
        "create_using must be cleared, populated and (when something is returned) be the object returned (create-using).  A simplicial "
        "complex sent through the two-column dataframe and read back with create_using=SimplicialComplex keeps its simplices (incidence) "
        "and - the dataframe carries them - their IDs (edge-labels; model request dataframe_sc, theorem dataframe_rt_sc).  The directed "
        "hyperedge dict / list (DiEdgeView.dimembers) is predicate-only; through xgi.to_dihypergraph WITHOUT create_using it is generated by "
        "the second-round 'directed' family only (review 2, V15: listed finding)",
        "unlabelled incidence matrix: judged by 'ID = row / column index' only; the iteration order of the result's nodes / edges is scipy's "
        "row-major first-appearance order (list(R.edges) may be [1, 0]) and is not compared",
        "the bipartite-graph / dataframe / edge-list / matrix round trips are judged on incidences (and labels or positions) only: these "
        "representations cannot carry empty edges or, for some, isolated nodes; the statement asks those of the two dicts only",
        "node order / edge order are compared only where they do not depend on Python set iteration order",
        "networkx, scipy/numpy, pandas act as oracles: the model receives G.nodes(data=True)/G.edges of hand-built graphs as networkx "
        "returns them",
    ]
    return finish(ctx, trusted_base=TRUSTED_COMMON + [
        "networkx Graph/DiGraph iteration, scipy coo_array coordinate order, pandas itertuples, Python sorted/str/int: modelled as pure functions"])


def replay(ctx, path):
    j = json.load(open(path))
    case = j["case"] if "case" in j else j
    ok = build_and_audit(ctx, "XgiModel.Props.C10", ["XgiModel.C10.Drive"])
    if case.get("f") == "wide":
        W.run_wide(ctx, [case], do_shrink=False)
        dis = []
    else:
        dis = run_cases(ctx, [case])
    conclude(ctx, ok, dis)
    return finish(ctx, trusted_base=TRUSTED_COMMON)
