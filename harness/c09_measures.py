"""C09 helper: the structural quantities of the property statement evaluated on the real xgi code, in a
label-aware canonical form (so that a result can be mapped back through a relabelling and compared).

A *shape* describes where node labels ('n') and edge IDs ('e') occur in a result:
    'x'                      plain value (number / bool / None / nested lists of those), compared with tolerance
    'n' | 'e'                a node label / an edge ID
    ('set', s)               unordered collection of s
    ('dict', ks, vs)         mapping (key shape, value shape); dict order is irrelevant
    ('tuple', s1, …, sk)     fixed-length tuple
`norm(shape, value, fn, fe)` returns a canonical nested tuple with labels mapped through fn / fe.
"""
import math
import signal
import warnings
from collections import Counter

import numpy as np

import xgi


# ------------------------------------------------------------------------------------------------ canonical forms

def tkey(x):
    """total order on canonical values (ints, floats, strings, None, tuples of those)"""
    if x is None:
        return (0,)
    if isinstance(x, (bool, np.bool_)):
        return (1, int(x))
    if isinstance(x, (int, np.integer)):
        return (2, int(x), 0)          # exact: integers above 2**53 must not collide (Python compares int with float exactly)
    if isinstance(x, (float, np.floating)):
        xf = float(x)
        return (2, -1.0, 1) if math.isnan(xf) else (2, xf, 0)
    if isinstance(x, str):
        return (3, x)
    if isinstance(x, tuple):
        return (4, tuple(tkey(y) for y in x))
    return (5, repr(x))


def plain(v):
    """numpy scalars / arrays / nested containers -> Python ints, floats, tuples"""
    if isinstance(v, (np.bool_, bool)):
        return bool(v)
    if isinstance(v, np.integer):
        return int(v)
    if isinstance(v, np.floating):
        return float(v)
    if isinstance(v, np.ndarray):
        return tuple(plain(x) for x in v.tolist())
    if isinstance(v, (list, tuple)):
        return tuple(plain(x) for x in v)
    return v


def norm(shape, v, fn, fe):
    if shape == 'x':
        return plain(v)
    if shape == 'n':
        return fn[v]
    if shape == 'e':
        return fe[v]
    tag = shape[0]
    if tag == 'set':
        return ('$set',) + tuple(sorted((norm(shape[1], x, fn, fe) for x in v), key=tkey))
    if tag == 'dict':
        if "$noindex" in v:
            return ('$noindex', plain(v["$noindex"]))
        items = [(norm(shape[1], k, fn, fe), norm(shape[2], x, fn, fe)) for k, x in v.items()]
        return ('$dict',) + tuple(sorted(items, key=lambda p: tkey(p[0])))
    if tag == 'tuple':
        return tuple(norm(s, x, fn, fe) for s, x in zip(shape[1:], v))
    raise ValueError(shape)


def same(a, b, tol):
    """structural equality of canonical values; floats up to tol (absolute and relative), nan == nan"""
    if isinstance(a, tuple) and isinstance(b, tuple):
        return len(a) == len(b) and all(same(x, y, tol) for x, y in zip(a, b))
    if isinstance(a, bool) or isinstance(b, bool):
        return isinstance(a, bool) and isinstance(b, bool) and a == b
    if isinstance(a, (int, float)) and isinstance(b, (int, float)):
        if isinstance(a, float) and math.isnan(a) or isinstance(b, float) and math.isnan(b):
            return isinstance(a, float) and isinstance(b, float) and math.isnan(a) and math.isnan(b)
        if math.isinf(a) or math.isinf(b):
            return a == b
        return abs(a - b) <= tol * max(1.0, abs(a), abs(b))
    return a == b


def first_diff(a, b, tol, path=""):
    """human-readable location of the first difference"""
    if isinstance(a, tuple) and isinstance(b, tuple):
        if len(a) != len(b):
            return f"{path}: lengths {len(a)} vs {len(b)}: {a!r} vs {b!r}"[:400]
        for i, (x, y) in enumerate(zip(a, b)):
            if not same(x, y, tol):
                return first_diff(x, y, tol, f"{path}[{i}]")
    return f"{path}: {a!r} vs {b!r}"[:400]


# ------------------------------------------------------------------------------------------------ matrices

def _dense(M):
    return M.toarray() if hasattr(M, "toarray") else np.asarray(M)


def mat_rc(M, rowmap, colmap):
    """matrix + index maps -> {(row label, col label): entry}; a matrix returned with an empty index is
    reported by its shape and whether it is all zero"""
    A = _dense(M)
    if not rowmap and not colmap:
        return {"$noindex": tuple(A.shape) + (bool(np.all(A == 0)),)}
    if A.shape != (len(rowmap), len(colmap)):
        raise AssertionError(f"matrix shape {A.shape} does not match its index maps {len(rowmap)}x{len(colmap)}")
    return {(rowmap[i], colmap[j]): plain(A[i, j]) for i in rowmap for j in colmap}


def vec_r(K, rowmap):
    K = np.asarray(K)
    if not rowmap:
        return {"$noindex": tuple(K.shape) + (bool(np.all(K == 0)),)}
    return {rowmap[i]: plain(K[i]) for i in rowmap}


NN = ('dict', ('tuple', 'n', 'n'), 'x')
NE = ('dict', ('tuple', 'n', 'e'), 'x')
EE = ('dict', ('tuple', 'e', 'e'), 'x')
ND = ('dict', 'n', 'x')
ED = ('dict', 'e', 'x')


# ------------------------------------------------------------------------------------------------ the measures

def _stat_summary(st):
    out = []
    for f in ("max", "min", "sum", "mean", "median", "std", "var"):
        out.append(getattr(st, f)())
    out.append(st.moment(2))
    out.append(st.moment(3, center=True))
    out.append(sorted(plain(st.aslist())))
    return out


def _largest_cc(H):
    comps = list(xgi.connected_components(H))
    top = max(len(c) for c in comps)
    c = xgi.largest_connected_component(H)
    # with a tie the function returns the first largest component in node order (inherently order dependent):
    # only its size is compared then
    return (len(c), frozenset(c) if sum(1 for d in comps if len(d) == top) == 1 else None)


def _largest_ch(H):
    comps = list(xgi.connected_components(H))
    top = max(len(c) for c in comps)
    G = xgi.largest_connected_hypergraph(H)
    uniq = sum(1 for d in comps if len(d) == top) == 1
    return (G.num_nodes, frozenset(G.nodes) if uniq else None, frozenset(G.edges) if uniq else None)


def _dup(H):
    """duplicates(): all but one representative of every class of equal edges; the choice of representative is
    by ID order (or insertion order for unorderable IDs) and is not compared — the classes are"""
    D = list(H.edges.duplicates())
    mem = H.edges.members(dtype=dict)
    classes = {}
    for e, ms in mem.items():
        classes.setdefault(frozenset(ms), []).append(e)
    multi = [frozenset(c) for c in classes.values() if len(c) > 1]
    ok = all(len(c - set(D)) == 1 for c in multi) and set(D) <= {e for c in multi for e in c} and len(D) == len(set(D))
    return (len(D), ok, frozenset(e for e in mem if any(e in c for c in multi)) if ok else frozenset(D))


class NoAnswer(BaseException):
    """the CPU budget of one measure expired (not an Exception: nothing in the library or the harness may swallow it)"""


def _vt_alarm(signum, frame):
    raise NoAnswer()


# Every measure is a terminating computation on <= 7 nodes / 7 edges and answers within milliseconds.  A call that has
# not answered after GUARD["s"] seconds of CPU time of THIS process (ITIMER_VIRTUAL: a loaded host cannot trip it) is
# repeated once with five times the budget; a second expiry is the value ('$err', 'no-answer'), which the check reports
# as the failure class no-answer-within-cpu-budget (never as "raises the same exception on both sides").  After
# GUARD["cap"] confirmed expiries a measure is not evaluated again in this run (DEAD; the shrinker sets "force").
GUARD = {"s": 2.0, "retry": True, "cap": 2, "force": False}
DEAD = Counter()
NO_ANSWER = ("$err", "no-answer")


def _timed(f, H, seconds):
    old = signal.signal(signal.SIGVTALRM, _vt_alarm)
    try:
        signal.setitimer(signal.ITIMER_VIRTUAL, seconds)
        try:
            return f(H)
        finally:
            signal.setitimer(signal.ITIMER_VIRTUAL, 0)
    finally:
        signal.signal(signal.SIGVTALRM, old)


def _quiet(f):
    def g(H):
        with warnings.catch_warnings():
            warnings.simplefilter("ignore")
            with np.errstate(all="ignore"):
                try:
                    return _timed(f, H, GUARD["s"])
                except NoAnswer:
                    if not GUARD["retry"]:
                        raise
                return _timed(f, H, 5 * GUARD["s"])
    return g


def _inc(order, sparse):
    def f(H):
        I, r, c = xgi.incidence_matrix(H, order=order, sparse=sparse, index=True)
        return mat_rc(I, r, c)
    return f


def _adj(order, s, weighted, sparse):
    def f(H):
        A, r = xgi.adjacency_matrix(H, order=order, sparse=sparse, s=s, weighted=weighted, index=True)
        return mat_rc(A, r, r)
    return f


def _lap(order, sparse, rescale):
    def f(H):
        L, r = xgi.laplacian(H, order=order, sparse=sparse, rescale_per_node=rescale, index=True)
        return mat_rc(L, r, r)
    return f


def _mlap(H):
    L, r = xgi.multiorder_laplacian(H, orders=[1, 2], weights=[1, 0.5], index=True)
    return mat_rc(L, r, r)


def _nlap(sparse):
    def f(H):
        L, r = xgi.normalized_hypergraph_laplacian(H, sparse=sparse, index=True)
        return mat_rc(L, r, r)
    return f


def _clique(H):
    W, r = xgi.clique_motif_matrix(H, index=True)
    return mat_rc(W, r, r)


def _degmat(order):
    def f(H):
        K, r = xgi.degree_matrix(H, order=order, index=True)
        return vec_r(K, r)
    return f


def _prof(H):
    P, c = xgi.intersection_profile(H, index=True)
    return mat_rc(P, c, c)


DENS_GRID = [(None, None, False), (None, None, True), (1, None, False), (2, None, False), (0, None, False),
             (0, None, True), (None, 1, False), (None, 2, True), (None, 0, False), (3, 1, False)]
MAT_GRID = [(None, 1, False), (None, 1, True), (None, 2, False), (None, 2, True), (1, 1, True), (2, 1, False)]
LAP_GRID = [1, 2]

# (site = public function name, label, shape, tolerance, flags, function of H)
# flags: 'orderable' = needs mutually orderable node labels (Trie sorts members); 'eids-orderable' = needs mutually
#        orderable edge IDs; 'order-only' = compared only under the identity relabelling (re-insertion alone)
M = []


def _m(site, label, shape, f, tol=1e-9, flags=()):
    M.append((site, label, shape, tol, frozenset(flags), _quiet(f)))


_m("degree", "nodes.degree", ND, lambda H: H.nodes.degree.asdict())
_m("degree", "H.degree()", ND, lambda H: H.degree())
_m("degree", "nodes.degree(order=1)", ND, lambda H: H.nodes.degree(order=1).asdict())
_m("degree", "nodes.degree(order=2)", ND, lambda H: H.nodes.degree(order=2).asdict())
_m("degree", "degree statistics", 'x', lambda H: _stat_summary(H.nodes.degree))
_m("size", "edges.size", ED, lambda H: H.edges.size.asdict())
_m("size", "edges.order", ED, lambda H: H.edges.order.asdict())
_m("size", "size statistics", 'x', lambda H: _stat_summary(H.edges.size))
_m("size", "edges.size(degree=2)", ED, lambda H: H.edges.size(degree=2).asdict())
_m("neighbors", "nodes.neighbors", ('dict', 'n', ('set', 'n')), lambda H: {n: H.nodes.neighbors(n) for n in H.nodes})
_m("neighbors", "edges.neighbors", ('dict', 'e', ('set', 'e')), lambda H: {e: H.edges.neighbors(e) for e in H.edges})
_m("neighbors", "nodes.neighbors(s=2)", ('dict', 'n', ('set', 'n')), lambda H: {n: H.nodes.neighbors(n, s=2) for n in H.nodes})
_m("average_neighbor_degree", "nodes.average_neighbor_degree", ND, lambda H: H.nodes.average_neighbor_degree.asdict())
_m("clustering_coefficient", "clustering_coefficient", ND, lambda H: xgi.clustering_coefficient(H))
_m("clustering_coefficient", "nodes.clustering_coefficient", ND, lambda H: H.nodes.clustering_coefficient.asdict())
_m("local_clustering_coefficient", "local_clustering_coefficient", ND, lambda H: xgi.local_clustering_coefficient(H))
_m("local_clustering_coefficient", "nodes.local_clustering_coefficient", ND, lambda H: H.nodes.local_clustering_coefficient.asdict())
for _k in ("union", "min", "max"):
    _m("two_node_clustering_coefficient", f"two_node_clustering_coefficient:{_k}", ND,
       (lambda k: lambda H: xgi.two_node_clustering_coefficient(H, kind=k))(_k))
_m("two_node_clustering_coefficient", "nodes.two_node_clustering_coefficient", ND, lambda H: H.nodes.two_node_clustering_coefficient.asdict())
_m("connected_components", "connected_components", ('set', ('set', 'n')), lambda H: [frozenset(c) for c in xgi.connected_components(H)])
_m("number_connected_components", "number_connected_components", 'x', lambda H: xgi.number_connected_components(H))
_m("is_connected", "is_connected", 'x', lambda H: xgi.is_connected(H))
_m("node_connected_component", "node_connected_component", ('dict', 'n', ('set', 'n')), lambda H: {n: xgi.node_connected_component(H, n) for n in H.nodes})
_m("largest_connected_component", "largest_connected_component", ('tuple', 'x', ('set', 'n')),
   lambda H: (lambda r: (r[0], r[1] if r[1] is not None else frozenset()))(_largest_cc(H)))
_m("largest_connected_hypergraph", "largest_connected_hypergraph", ('tuple', 'x', ('set', 'n'), ('set', 'e')),
   lambda H: (lambda r: (r[0], r[1] or frozenset(), r[2] or frozenset()))(_largest_ch(H)))
_m("shortest_path_length", "shortest_path_length", ('dict', 'n', ('dict', 'n', 'x')), lambda H: dict(xgi.shortest_path_length(H)))
for _i, (_o, _mo, _ign) in enumerate(DENS_GRID):
    _m("density", f"density:{_i}", 'x', (lambda o, mo, ign: lambda H: xgi.density(H, order=o, max_order=mo, ignore_singletons=ign))(_o, _mo, _ign))
    _m("incidence_density", f"incidence_density:{_i}", 'x',
       (lambda o, mo, ign: lambda H: xgi.incidence_density(H, order=o, max_order=mo, ignore_singletons=ign))(_o, _mo, _ign))
_m("degree_counts", "degree_counts", 'x', lambda H: xgi.degree_counts(H))
_m("degree_histogram", "degree_histogram", 'x', lambda H: xgi.degree_histogram(H))
_m("unique_edge_sizes", "unique_edge_sizes", 'x', lambda H: xgi.unique_edge_sizes(H))
_m("is_uniform", "is_uniform", 'x', lambda H: xgi.is_uniform(H))
_m("max_edge_order", "max_edge_order", 'x', lambda H: xgi.max_edge_order(H))
_m("num_edges_order", "num_edges_order", 'x', lambda H: [xgi.num_edges_order(H, d) for d in (None, 0, 1, 2, 3)])
_m("edge_neighborhood", "edge_neighborhood", ('dict', 'n', ('set', ('set', 'n'))),
   lambda H: {n: [frozenset(s) for s in xgi.edge_neighborhood(H, n)] for n in H.nodes})
for _k in ("uniform", "top-2", "top-bottom"):
    _m("degree_assortativity", f"degree_assortativity:{_k}:exact", 'x',
       (lambda k: lambda H: xgi.degree_assortativity(H, kind=k, exact=True))(_k))
_m("dynamical_assortativity", "dynamical_assortativity", 'x', lambda H: xgi.dynamical_assortativity(H))
for _f in ("edit_simpliciality", "simplicial_edit_distance", "face_edit_simpliciality", "mean_face_edit_distance", "simplicial_fraction"):
    _m(_f, _f, 'x', (lambda f: lambda H: getattr(xgi, f)(H))(_f), flags=("orderable",))
    _m(_f, _f + "(min_size=1)", 'x', (lambda f: lambda H: getattr(xgi, f)(H, min_size=1, exclude_min_size=False))(_f), flags=("orderable",))
for _f in ("local_simplicial_fraction", "local_edit_simpliciality", "local_face_edit_simpliciality"):
    _m(_f, "nodes." + _f, ND, (lambda f: lambda H: getattr(H.nodes, f).asdict())(_f), flags=("orderable",))
_m("maximal", "edges.maximal", ('set', 'e'), lambda H: set(H.edges.maximal()))
_m("maximal", "edges.maximal(strict)", ('set', 'e'), lambda H: set(H.edges.maximal(strict=True)))
_m("duplicates", "edges.duplicates (classes)", ('tuple', 'x', 'x', ('set', 'e')), _dup)
_m("duplicates", "nodes.duplicates (classes)", ('tuple', 'x', ('set', ('set', 'n'))),
   lambda H: (len(H.nodes.duplicates()), {frozenset(m for m in H.nodes if H.nodes.memberships(m) == H.nodes.memberships(n)) for n in H.nodes.duplicates()}))
_m("katz_centrality", "katz_centrality", ND, lambda H: xgi.katz_centrality(H), tol=1e-8)
_m("katz_centrality", "nodes.katz_centrality", ND, lambda H: H.nodes.katz_centrality.asdict(), tol=1e-8)
for _o in (None, 1, 2):
    _m("incidence_matrix", f"incidence_matrix(order={_o})", NE, _inc(_o, False))
_m("incidence_matrix", "incidence_matrix(sparse)", NE, _inc(None, True))
for _o, _s, _w in MAT_GRID:
    _m("adjacency_matrix", f"adjacency_matrix(order={_o},s={_s},weighted={_w})", NN, _adj(_o, _s, _w, False))
_m("adjacency_matrix", "adjacency_matrix(sparse,weighted)", NN, _adj(None, 1, True, True))
for _d in LAP_GRID:
    _m("laplacian", f"laplacian(order={_d})", NN, _lap(_d, False, False))
_m("laplacian", "laplacian(order=1,sparse,rescale)", NN, _lap(1, True, True))
_m("multiorder_laplacian", "multiorder_laplacian", NN, _mlap)
_m("normalized_hypergraph_laplacian", "normalized_hypergraph_laplacian", NN, _nlap(False))
_m("normalized_hypergraph_laplacian", "normalized_hypergraph_laplacian(sparse)", NN, _nlap(True))
_m("clique_motif_matrix", "clique_motif_matrix", NN, _clique)
_m("degree_matrix", "degree_matrix", ND, _degmat(None))
_m("degree_matrix", "degree_matrix(order=1)", ND, _degmat(1))
_m("intersection_profile", "intersection_profile", EE, _prof)


# ---- attribute-dependent quantities: the networks of the metamorphic run carry an edge attribute "weight" (absent on
# some edges: default 1) and a node attribute "mass", both carried along by the relabelling
W, MASS = "weight", "mass"


def _incw(sparse, with_mass):
    def f(H):
        wf = (lambda n, e, G: G.edges[e].get(W, 1) * G.nodes[n].get(MASS, 1)) if with_mass else (lambda n, e, G: G.edges[e].get(W, 1))
        I, r, c = xgi.incidence_matrix(H, sparse=sparse, index=True, weight=wf)
        return mat_rc(I, r, c)
    return f


def _nlapw(sparse):
    def f(H):
        L, r = xgi.normalized_hypergraph_laplacian(H, weighted=True, sparse=sparse, index=True)
        return mat_rc(L, r, r)
    return f


def _line(s, weights):
    def f(H):
        G = xgi.to_line_graph(H, s=s, weights=weights)
        if G.is_directed() or G.is_multigraph():
            raise AssertionError("to_line_graph did not return a simple graph")
        return ({n: frozenset(d.get("original_hyperedge", ())) for n, d in G.nodes(data=True)},
                {frozenset((a, b)): d.get("weight", "unweighted") for a, b, d in G.edges(data=True)})
    return f


LINE = ('tuple', ('dict', 'e', ('set', 'n')), ('dict', ('set', 'e'), 'x'))
_m("degree", "nodes.degree(weight)", ND, lambda H: H.nodes.degree(weight=W).asdict())
_m("degree", "nodes.degree(order=1,weight)", ND, lambda H: H.nodes.degree(order=1, weight=W).asdict())
_m("degree", "nodes.degree(order=2,weight)", ND, lambda H: H.nodes.degree(order=2, weight=W).asdict())
_m("degree", "nodes.degree(weight=absent key)", ND, lambda H: H.nodes.degree(weight="no-such-attribute").asdict())
_m("degree", "weighted degree statistics", 'x', lambda H: _stat_summary(H.nodes.degree(weight=W)))
_m("attrs", "edges.attrs(weight)", ED, lambda H: H.edges.attrs(W).asdict())
_m("attrs", "edges.attrs(weight,missing=1)", ED, lambda H: H.edges.attrs(W, missing=1).asdict())
_m("attrs", "nodes.attrs(mass)", ND, lambda H: H.nodes.attrs(MASS).asdict())
_m("attrs", "nodes.attrs (all)", ('dict', 'n', 'x'), lambda H: {n: sorted(d.items()) for n, d in H.nodes.attrs.asdict().items()})
_m("attrs", "edges.attrs (all)", ('dict', 'e', 'x'), lambda H: {e: sorted(d.items()) for e, d in H.edges.attrs.asdict().items()})
_m("filterby_attr", "edges.filterby_attr(weight>1)", ('set', 'e'), lambda H: set(H.edges.filterby_attr(W, 1, mode="gt", missing=1)))
_m("filterby_attr", "nodes.filterby_attr(mass=2)", ('set', 'n'), lambda H: set(H.nodes.filterby_attr(MASS, 2)))
_m("incidence_matrix", "incidence_matrix(weight=edge attribute)", NE, _incw(False, False))
_m("incidence_matrix", "incidence_matrix(weight=node x edge attribute,sparse)", NE, _incw(True, True))
_m("normalized_hypergraph_laplacian", "normalized_hypergraph_laplacian(weighted)", NN, _nlapw(False))
_m("normalized_hypergraph_laplacian", "normalized_hypergraph_laplacian(weighted,sparse)", NN, _nlapw(True))
_m("to_line_graph", "to_line_graph(s=1)", LINE, _line(1, None))
_m("to_line_graph", "to_line_graph(s=1,absolute)", LINE, _line(1, "absolute"))
_m("to_line_graph", "to_line_graph(s=2,normalized)", LINE, _line(2, "normalized"))
_m("isolates", "nodes.isolates", ('set', 'n'), lambda H: set(H.nodes.isolates()))
_m("singletons", "edges.singletons", ('set', 'e'), lambda H: set(H.edges.singletons()))
# the exact result of duplicates(): the representative left out of every class is the smallest ID (sorted()), so the
# exact set is invariant under re-insertion alone when the IDs are mutually orderable (flags: compared only for the
# identity relabelling; needs orderable edge IDs / node labels)
_m("duplicates", "edges.duplicates() (exact, reordering only)", ('set', 'e'), lambda H: set(H.edges.duplicates()), flags=("order-only", "eids-orderable"))
_m("duplicates", "nodes.duplicates() (exact, reordering only)", ('set', 'n'), lambda H: set(H.nodes.duplicates()), flags=("order-only", "orderable"))


def _adjt(order):
    import itertools

    def f(H):
        B, r = xgi.adjacency_tensor(H, order, index=True)
        if not r:
            return {"$noindex": tuple(B.shape) + (bool(np.all(B == 0)),)}
        return {tuple(r[i] for i in idx): plain(B[idx]) for idx in itertools.product(range(len(r)), repeat=order + 1)}
    return f


_m("adjacency_tensor", "adjacency_tensor(order=1)", ('dict', ('tuple', 'n', 'n'), 'x'), _adjt(1))
_m("adjacency_tensor", "adjacency_tensor(order=2)", ('dict', ('tuple', 'n', 'n', 'n'), 'x'), _adjt(2))

BY_LABEL = {m[1]: m for m in M}

# quantities OUTSIDE the property statement whose label / order dependence is only recorded (never a verdict)
OBS = [
    ("line_vector_centrality", "line_vector_centrality", ND, 1e-6, _quiet(lambda H: xgi.line_vector_centrality(H))),
    ("duplicates", "edges.duplicates() representative", ('set', 'e'), 1e-9, _quiet(lambda H: set(H.edges.duplicates()))),
    ("argmax", "nodes.degree.argmax()", 'n', 1e-9, _quiet(lambda H: H.nodes.degree.argmax())),
]


def observe(H, fn, fe):
    out = {}
    for site, label, shape, tol, f in OBS:
        if DEAD["obs:" + label] >= GUARD["cap"]:
            out[label] = NO_ANSWER
            continue
        try:
            out[label] = norm(shape, f(H), fn, fe)
        except NoAnswer:
            out[label] = NO_ANSWER
            DEAD["obs:" + label] += 1
        except Exception as ex:  # noqa
            out[label] = ("$err", type(ex).__name__)
    return out


def orderable(labels):
    try:
        sorted(labels)
        return True
    except TypeError:
        return False


def evaluate(H, fn, fe, labels=None, skip_unorderable=False, skip_flags=(), reverse=False):
    """all measures (or those in `labels`) on H, canonicalised with labels mapped through fn / fe; measures carrying
    a flag in `skip_flags` are left out.  A raised exception is the value ('$err', type name)."""
    fnl, fel = fn, fe
    out = {}
    skip = set(skip_flags) | ({"orderable"} if skip_unorderable else set())
    for site, label, shape, tol, flags, f in (M[::-1] if reverse else M):      # reverse: the calls are made in the opposite order
        if labels is not None and label not in labels:
            continue
        if skip & flags:
            continue
        if DEAD[label] >= GUARD["cap"] and not GUARD["force"]:
            continue
        try:
            out[label] = norm(shape, f(H), fnl, fel)
        except NoAnswer:
            out[label] = NO_ANSWER
            if not GUARD["force"]:
                DEAD[label] += 1
        except AssertionError:
            raise
        except Exception as ex:  # noqa
            out[label] = ("$err", type(ex).__name__)
    return out
