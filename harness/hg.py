"""Undirected Hypergraph: op-history generator, executor on the real implementation, canonical snapshot.

Ops are JSON request dicts of the line protocol (see lean/XgiModel/Drive/HG.lean).  `apply_impl` performs the
call on a real `xgi.Hypergraph` and fills in the oracle fields (set iteration order of `set(members)`, the
result of `random.sample`) that the model takes as explicit arguments.
"""
import copy
import random as pyrandom
import warnings

import xgi
from xgi.exception import IDNotFound, XGIError

from .core import dec_id, enc_attrs, enc_attrs_req, enc_id, enc_val_req, idkey

# ----------------------------------------------------------------------------- generation

NODE_UNIVERSES = [
    [0, 1, 2, 3, 4],
    [1, 2, 3, 4, 5, 6],
    ["a", "b", "c", "d"],
    [0, 1, 2, "a", "b", "10"],
    [-1, 0, 7, 3, 12],
    [0, 1, 2],
    [0, 8, 16, 1, 9],                # ints that collide in a small hash table: equal sets iterate in different orders
    [0, 1, 2, "a", "b", "10"],       # (mixed labels twice as likely: sorted() of such members raises)
]
EDGE_UNIVERSES = [
    [0, 1, 2, 3, 4, 5],
    [0, 1, 2],
    ["e0", "e1", "x", "y"],
    [0, 1, 5, "e", "10", -2],
    [3, 2, 1, 0, 8],
    [0, 1, 10**30, 2**53 + 1, 2],    # integers beyond float precision are integers too (10**309, beyond the float range, is
                                     # drawn by the C04 provenance predicate only: pandas itself cannot hold it)
]
ATTR_KEYS = ["w", "color", "label", "weight", "m"]
ATTR_VALS = [0, 1, 2, "r", "g", None, [1, 2], {"k": [1]}]


# documented defaults of the keyword parameters (docstrings of xgi/core/hypergraph.py).  A generated call leaves some of
# them out (op["omit"] names them; the op then carries the documented default, which is what the model performs): a
# default that drifts from the documentation is a wrong effect of the plain call.
DEFAULTS = {
    "remove_node": {"strong": False, "remove_empty": True},
    "remove_nodes_from": {"strong": False, "remove_empty": True},
    "remove_node_from_edge": {"remove_empty": True},
    "clear": {"remove_net_attr": True},
    "merge_duplicate_edges": {"rename": "first", "merge_rule": "first"},
    "cleanup": {"isolates": False, "singletons": False, "multiedges": False, "connected": True, "relabel": True},
}


def _kw(op, *names):
    """the keyword arguments of the call: those named in op["omit"] are left to the library's defaults"""
    return {k: op[k] for k in names if k not in op.get("omit", ())}


class Gen:
    def __init__(self, rng, weights=None, malformed=0.04):
        self.rng = rng
        self.nodes = rng.choice(NODE_UNIVERSES)
        self.eids = rng.choice(EDGE_UNIVERSES)
        self.malformed = malformed
        self.weights = weights or {}

    def node(self):
        if self.rng.random() < self.malformed:
            return None
        return self.rng.choice(self.nodes)

    def eid(self):
        if self.rng.random() < self.malformed:
            return None
        return self.rng.choice(self.eids)

    def members(self, lo=0, hi=4):
        k = self.rng.randint(lo, hi)
        return [self.node() for _ in range(k)]

    def attrs(self, p=0.5):
        if self.rng.random() > p:
            return {}
        return {self.rng.choice(ATTR_KEYS): self.rng.choice(ATTR_VALS) for _ in range(self.rng.randint(1, 2))}

    def edge_item(self, fmt):
        it = {"members": [enc_id(x) for x in self.members(0 if fmt != 1 else 0, 4)]}
        if fmt in (2, 4, 5):
            it["idx"] = enc_id(self.eid())
        if fmt in (3, 4):
            it["attr"] = enc_attrs_req(self.attrs(0.7))
        return it

    def node_item(self):
        it = {"n": enc_id(self.node())}
        if self.rng.random() < 0.4:
            it["attr"] = enc_attrs_req(self.attrs(0.9))
        return it

    def attr_arg(self, ids):
        r = self.rng.random()
        pick = lambda: [self.rng.choice(ids) for _ in range(self.rng.randint(0, 3))]
        if r < 0.35:
            return {"shape": "dict_name", "values": [[enc_id(i), enc_val_req(self.rng.choice(ATTR_VALS))] for i in dict.fromkeys(pick())],
                    "name": self.rng.choice(ATTR_KEYS)}
        if r < 0.6:
            return {"shape": "const_name", "value": enc_val_req(self.rng.choice([v for v in ATTR_VALS if not isinstance(v, dict)])), "name": self.rng.choice(ATTR_KEYS)}
        if r < 0.95:
            return {"shape": "dict_of_dict", "values": [[enc_id(i), enc_attrs_req(self.attrs(1.0))] for i in dict.fromkeys(pick())]}
        return {"shape": "bad_no_name"}

    OPS = {
        "add_node": 6, "add_nodes_from": 5, "remove_node": 8, "remove_nodes_from": 5, "add_edge": 14,
        "add_edges_from": 14, "add_weighted_edges_from": 3, "add_node_to_edge": 8, "remove_edge": 6,
        "remove_edges_from": 4, "remove_node_from_edge": 7, "set_node_attributes": 3, "set_edge_attributes": 3,
        "set_net_attr": 1, "double_edge_swap": 5, "random_edge_shuffle": 5, "update": 3, "clear": 1,
        "clear_edges": 1, "merge_duplicate_edges": 5, "cleanup": 3, "relabel": 2, "lcc_in_place": 2, "freeze": 0,
    }

    def op(self):
        op = self._op()
        d = DEFAULTS.get(op["op"])
        if d and self.rng.random() < 0.3:
            omit = [k for k in d if self.rng.random() < 0.6]
            for k in omit:
                op[k] = d[k]
            if omit:
                op["omit"] = omit
        return op

    def _op(self):
        w = dict(self.OPS)
        w.update(self.weights)
        names = list(w)
        name = self.rng.choices(names, [w[n] for n in names])[0]
        r = self.rng
        b = lambda p=0.5: r.random() < p
        if name == "add_node":
            return {"op": name, "n": enc_id(self.node()), "attr": enc_attrs_req(self.attrs())}
        if name == "add_nodes_from":
            return {"op": name, "items": [self.node_item() for _ in range(r.randint(0, 4))], "attr": enc_attrs_req(self.attrs(0.3))}
        if name == "remove_node":
            return {"op": name, "n": enc_id(self.node()), "strong": b(), "remove_empty": b(0.6)}
        if name == "remove_nodes_from":
            if b(0.08):     # the network's own live view as the iterable (the call fills in "ns")
                return {"op": name, "ns": [], "view": True, "strong": b(), "remove_empty": b(0.6)}
            return {"op": name, "ns": [enc_id(self.node()) for _ in range(r.randint(0, 3))], "strong": b(), "remove_empty": b(0.6)}
        if name == "add_edge":
            idx = "$auto" if b(0.55) else enc_id(self.eid())
            return {"op": name, "members_raw": [enc_id(x) for x in self.members()], "idx": idx, "attr": enc_attrs_req(self.attrs())}
        if name == "add_edges_from":
            fmt = r.choice([1, 1, 2, 3, 4, 5])
            items = [self.edge_item(fmt) for _ in range(r.randint(0, 4))]
            if fmt == 5:  # dict keys are unique
                seen, out = set(), []
                for it in items:
                    k = repr(it["idx"])
                    if k not in seen:
                        seen.add(k); out.append(it)
                items = out
            return {"op": name, "fmt": fmt, "items": items, "attr": enc_attrs_req(self.attrs(0.3)), "share_sets": (True if b(0.3) else ("iter" if b(0.15) else False))}
        if name == "add_weighted_edges_from":
            items = [{"members": [enc_id(x) for x in self.members(1, 3)], "attr": [[None, r.choice([1, 2, 5])]]} for _ in range(r.randint(0, 3))]
            wname = r.choice(["weight", "w"])
            for it in items:
                it["attr"][0][0] = wname
            at = {k: v for k, v in self.attrs(0.3).items() if k != "weight"}   # `weight` is a parameter name
            return {"op": name, "weight": wname, "items": items, "attr": enc_attrs_req(at)}
        if name == "add_node_to_edge":
            return {"op": name, "e": enc_id(self.eid()), "n": enc_id(self.node())}
        if name == "remove_edge":
            return {"op": name, "e": enc_id(self.eid())}
        if name == "remove_edges_from":
            if b(0.08):     # the network's own live view as the iterable (the call fills in "es")
                return {"op": name, "es": [], "view": True}
            return {"op": name, "es": [enc_id(self.eid()) for _ in range(r.randint(0, 3))]}
        if name == "remove_node_from_edge":
            return {"op": name, "e": enc_id(self.eid()), "n": enc_id(self.node()), "remove_empty": b(0.6)}
        if name == "set_node_attributes":
            return {"op": name, **self.attr_arg(self.nodes)}
        if name == "set_edge_attributes":
            return {"op": name, **self.attr_arg(self.eids)}
        if name == "set_net_attr":
            return {"op": name, "k": r.choice(ATTR_KEYS), "v": enc_val_req(r.choice(ATTR_VALS))}
        if name == "double_edge_swap":
            return {"op": name, "n1": enc_id(self.node()), "n2": enc_id(self.node()), "e1": enc_id(self.eid()), "e2": enc_id(self.eid())}
        if name == "random_edge_shuffle":
            return {"op": name, "e1": enc_id(self.eid()), "e2": enc_id(self.eid()), "seed": r.randint(0, 10**6)}
        if name == "update":
            fmt = r.choice([1, 2, 3, 4, 5])
            edges = None if b(0.3) else {"fmt": fmt, "items": [self.edge_item(fmt) for _ in range(r.randint(0, 3))]}
            if edges and fmt == 5:
                seen, out = set(), []
                for it in edges["items"]:
                    if repr(it["idx"]) not in seen:
                        seen.add(repr(it["idx"])); out.append(it)
                edges["items"] = out
            return {"op": name, "edges": edges, "nodes": [self.node_item() for _ in range(r.randint(0, 3))]}
        if name == "clear":
            return {"op": name, "remove_net_attr": b()}
        if name == "clear_edges":
            return {"op": name}
        if name == "merge_duplicate_edges":
            op = {"op": name, "rename": r.choice(["first", "first", "tuple", "new", "bogus"] if b(0.1) else ["first", "tuple", "new"]),
                  "merge_rule": r.choice(["first", "union", "intersection"] + (["bogus"] if b(0.1) else []))}
            if b(0.4):
                op["multiplicity"] = r.choice(["m", "multiplicity"])
            return op
        if name == "cleanup":
            return {"op": name, "isolates": b(), "singletons": b(), "multiedges": b(), "connected": b(), "relabel": b()}
        if name == "relabel":
            return {"op": name, "label_attribute": r.choice(["label", "old"])}
        if name == "lcc_in_place":
            return {"op": name}
        if name == "freeze":
            return {"op": name}
        raise AssertionError(name)


def gen_history(rng, lo=1, hi=30, weights=None, malformed=0.04):
    g = Gen(rng, weights, malformed)
    k = rng.randint(lo, hi)
    ops = []
    # a bulk start makes non-trivial states likely
    if rng.random() < 0.7:
        fmt = rng.choice([1, 1, 2, 3, 4, 5])
        items = [g.edge_item(fmt) for _ in range(rng.randint(1, 5))]
        for it in items:
            it["members"] = [m for m in it["members"] if m is not None]
            if not it["members"]:
                it["members"] = [enc_id(g.nodes[0])]
            if "idx" in it and it["idx"] is None:
                it["idx"] = enc_id(g.eids[0])
        if fmt == 5:
            seen, out = set(), []
            for it in items:
                if repr(it["idx"]) not in seen:
                    seen.add(repr(it["idx"])); out.append(it)
            items = out
        ops.append({"op": "add_edges_from", "fmt": fmt, "items": items, "attr": []})
    ops += [g.op() for _ in range(k)]
    return ops


# ----------------------------------------------------------------------------- execution on the implementation

def _attrs(pairs):
    return {k: _val(v) for k, v in pairs}


def _val(v):
    if isinstance(v, dict) and "$o" in v:
        import json
        if v["$o"].startswith("("):
            return tuple(json.loads("[" + v["$o"][1:-1] + "]"))
        return json.loads(v["$o"])
    if isinstance(v, dict) and "$set" in v:
        return {_val(x) for x in v["$set"]}
    return v


def _node_items(items):
    out = []
    for it in items:
        n = dec_id(it["n"])
        out.append((n, _attrs(it["attr"])) if "attr" in it else n)
    return out


def _ebunch(fmt, items, share=False):
    """the Python ebunch for a bulk call.  With `share`, duplicate-free member lists are handed over as `set` objects and
    equal member sets as ONE shared object (the network must copy what it is given); the iteration order of each set is
    written back into the item so that the model sees the members in the order the implementation iterates them."""
    cache = {}

    def members(it):
        ms = [dec_id(m) for m in it["members"]]
        if share == "iter":
            return iter(ms)              # a one-shot iterable: the library may look at it only once
        if not share or len(set(map(repr, ms))) != len(ms) or None in ms:
            return ms
        try:
            st = cache.setdefault(tuple(sorted(map(repr, ms))), set(ms))
        except TypeError:
            return ms
        it["members"] = [enc_id(x) for x in st]
        return st
    if fmt == 5:
        return {dec_id(it["idx"]): members(it) for it in items}
    out = []
    for k, it in enumerate(items):
        # (format 1: the first edge stays a list — the library's format sniffing treats a set-valued first edge
        #  differently from a list, which the model's format-1 rule does not distinguish)
        ms = [dec_id(m) for m in it["members"]] if (fmt == 1 and k == 0 and share != "iter") else members(it)
        if fmt == 1:
            out.append(ms)
        elif fmt == 2:
            out.append((ms, dec_id(it["idx"])))
        elif fmt == 3:
            out.append((ms, _attrs(it.get("attr", []))))
        else:
            out.append((ms, dec_id(it["idx"]), _attrs(it.get("attr", []))))
    return out


def _attr_call(f, op):
    sh = op["shape"]
    if sh == "dict_name":
        return f({dec_id(i): _val(v) for i, v in op["values"]}, name=op["name"])
    if sh == "const_name":
        return f(_val(op["value"]), name=op["name"])
    if sh == "dict_of_dict":
        return f({dec_id(i): _attrs(a) for i, a in op["values"]})
    return f(3)


def call(H, op):
    """perform the public call described by `op` on the real network; may fill oracle fields of `op`"""
    name = op["op"]
    if name == "add_node":
        return H.add_node(dec_id(op["n"]), **_attrs(op["attr"]))
    if name == "add_nodes_from":
        return H.add_nodes_from(_node_items(op["items"]), **_attrs(op["attr"]))
    if name == "remove_node":
        return H.remove_node(dec_id(op["n"]), **_kw(op, "strong", "remove_empty"))
    if name == "remove_nodes_from":
        if op.get("view"):
            op["ns"] = [enc_id(n) for n in H.nodes]
            return H.remove_nodes_from(H.nodes, **_kw(op, "strong", "remove_empty"))
        return H.remove_nodes_from([dec_id(n) for n in op["ns"]], **_kw(op, "strong", "remove_empty"))
    if name == "add_edge":
        ms = [dec_id(m) for m in op["members_raw"]]
        op["members"] = [enc_id(m) for m in set(ms)]          # oracle: iteration order of set(members)
        kw = {} if op["idx"] == "$auto" else {"idx": dec_id(op["idx"])}
        if op["idx"] is None:
            kw = {"idx": None}
            op["idx"] = "$auto"                                # idx=None *is* the automatic id
        return H.add_edge(ms, **kw, **_attrs(op["attr"]))
    if name == "add_edges_from":
        return H.add_edges_from(_ebunch(op["fmt"], op["items"], op.get("share_sets", False)), **_attrs(op["attr"]))
    if name == "add_weighted_edges_from":
        eb = [[dec_id(m) for m in it["members"]] + [it["attr"][0][1]] for it in op["items"]]
        return H.add_weighted_edges_from(eb, weight=op["weight"], **_attrs(op["attr"]))
    if name == "add_node_to_edge":
        return H.add_node_to_edge(dec_id(op["e"]), dec_id(op["n"]))
    if name == "remove_edge":
        return H.remove_edge(dec_id(op["e"]))
    if name == "remove_edges_from":
        if op.get("view"):
            op["es"] = [enc_id(e) for e in H.edges]
            return H.remove_edges_from(H.edges)
        return H.remove_edges_from([dec_id(e) for e in op["es"]])
    if name == "remove_node_from_edge":
        return H.remove_node_from_edge(dec_id(op["e"]), dec_id(op["n"]), **_kw(op, "remove_empty"))
    if name == "set_node_attributes":
        return _attr_call(H.set_node_attributes, op)
    if name == "set_edge_attributes":
        return _attr_call(H.set_edge_attributes, op)
    if name == "set_net_attr":
        H[op["k"]] = _val(op["v"])
        return
    if name == "double_edge_swap":
        return H.double_edge_swap(dec_id(op["n1"]), dec_id(op["n2"]), dec_id(op["e1"]), dec_id(op["e2"]))
    if name == "random_edge_shuffle":
        # record what random.sample returns (the model takes it as the `choice` argument)
        rec = []
        real = pyrandom.sample

        def sample(pop, k, **kw):
            out = real(pop, k, **kw)
            rec.append(list(out))
            return out
        pyrandom.seed(op["seed"])
        pyrandom.sample = sample
        try:
            return H.random_edge_shuffle(dec_id(op["e1"]), dec_id(op["e2"]))
        finally:
            pyrandom.sample = real
            if (op["e1"] is None or op["e2"] is None) and rec:
                # the pair was drawn by the first random.sample
                op["e1"], op["e2"] = enc_id(rec[0][0]), enc_id(rec[0][1])
                rec = rec[1:]
            op["choice"] = [enc_id(x) for x in (rec[-1] if rec else [])]
    if name == "update":
        e = op["edges"]
        return H.update(edges=None if e is None else _ebunch(e["fmt"], e["items"]), nodes=_node_items(op["nodes"]))
    if name == "clear":
        return H.clear(**_kw(op, "remove_net_attr"))
    if name == "clear_edges":
        return H.clear_edges()
    if name == "merge_duplicate_edges":
        return H.merge_duplicate_edges(**_kw(op, "rename", "merge_rule"), multiplicity=op.get("multiplicity"))
    if name == "cleanup":
        return H.cleanup(**_kw(op, "isolates", "singletons", "multiedges", "connected", "relabel"), in_place=True)
    if name == "relabel":
        return xgi.convert_labels_to_integers(H, label_attribute=op["label_attribute"], in_place=True)
    if name == "lcc_in_place":
        return xgi.largest_connected_hypergraph(H, in_place=True)
    if name == "freeze":
        return H.freeze()
    raise AssertionError(name)


def outcome_of(exc, warned):
    if exc is None:
        return "warned" if warned else "ok"
    if type(exc).__name__ == "CallTimeout":
        return "err:hang"
    if isinstance(exc, (XGIError, IDNotFound)):
        return "err:lib"
    if isinstance(exc, TypeError):
        return "err:type"
    if isinstance(exc, ValueError):
        return "err:value"
    return "err:other"


def apply_impl(H, op, callf=call):
    """the call under the watchdog of dhg.guarded: a call that does not return ends with outcome "err:hang" (and so does
    every later call of the history: the network of a call that never returned is garbage)"""
    from .dhg import CallTimeout, guarded
    with warnings.catch_warnings(record=True) as w:
        warnings.simplefilter("always")
        exc = None
        try:
            hung = H.__dict__.get("_verif_hung")
            if hung is not None:
                raise hung
            guarded(callf)(H, op)
        except Exception as e:  # noqa
            exc = e
            if isinstance(e, CallTimeout):
                H.__dict__["_verif_hung"] = e
        finally:
            warned = any(issubclass(x.category, UserWarning) for x in w)
            del w[:]
    return outcome_of(exc, warned), exc


def safe_id(x):
    """enc_id, or the marker "$bad:<type>" for an object that is no ID of the model's domain (what a wrong edit of the
    library may store as a node or edge: an iterator, a list, ...): the snapshot stays readable, the tie reports it"""
    try:
        return enc_id(x)
    except (ValueError, TypeError):
        return "$bad:" + type(x).__name__


def sids(it):
    return sorted((safe_id(x) for x in it), key=idkey)


def snapshot(H, out="ok"):
    """canonical observation of an undirected network (public API; private key sets and counter when present)"""
    nodes, edges = list(H.nodes), list(H.edges)
    s = {"out": out, "nodes": [safe_id(n) for n in nodes], "edges": [safe_id(e) for e in edges]}
    mem, memb, nattr, eattr = [], [], [], []
    for e in edges:
        try:
            mem.append([safe_id(e), sids(H.edges.members(e))])
        except Exception as ex:  # noqa
            mem.append([safe_id(e), "$err:" + type(ex).__name__])
        try:
            eattr.append([safe_id(e), enc_attrs(H.edges[e])])
        except Exception:  # noqa
            eattr.append([safe_id(e), "$missing"])
    for n in nodes:
        try:
            memb.append([safe_id(n), sids(H.nodes.memberships(n))])
        except Exception as ex:  # noqa
            memb.append([safe_id(n), "$err:" + type(ex).__name__])
        try:
            nattr.append([safe_id(n), enc_attrs(H.nodes[n])])
        except Exception:  # noqa
            nattr.append([safe_id(n), "$missing"])
    s.update(mem=mem, memb=memb, nattr=nattr, eattr=eattr)
    na, ea = getattr(H, "_node_attr", None), getattr(H, "_edge_attr", None)
    s["nattrK"] = sids(na.keys()) if na is not None else sids(nodes)
    s["eattrK"] = sids(ea.keys()) if ea is not None else sids(edges)
    s["net"] = enc_attrs(getattr(H, "_net_attr", {}))
    try:
        s["uid"] = next(copy.copy(H._edge_uid))
    except Exception:  # noqa
        s["uid"] = "$err"
    s["frozen"] = bool(H.is_frozen)
    return s


def to_request(op):
    r = {k: v for k, v in op.items() if k not in ("members_raw", "seed", "weight", "share_sets", "omit", "view")}
    return r


def nontrivial(snap, kinds):
    return len(kinds) >= 2 and any(isinstance(m[1], list) and len(m[1]) >= 2 for m in snap["mem"])


NAME = "Hypergraph"
CORPUS = "HG"    # shared corpus directory corpus/HG/*.json (always run first)
factory = xgi.Hypergraph


def small_alphabet():
    """a fixed 14-op alphabet over nodes {0,1,2} / edge ids {0,1}; all sequences up to a depth are enumerated in the
    thorough tier (exhaustive small-scope validation of the correspondence, not of the property)"""
    A = []
    A.append({"op": "add_edge", "members_raw": [0, 1], "idx": "$auto", "attr": []})
    A.append({"op": "add_edge", "members_raw": [1, 2], "idx": 0, "attr": []})
    A.append({"op": "add_edge", "members_raw": [1], "idx": 1, "attr": [["w", 1]]})
    A.append({"op": "add_edges_from", "fmt": 2, "items": [{"members": [0, 1], "idx": 1}, {"members": [1, 2], "idx": 0}], "attr": []})
    A.append({"op": "add_edges_from", "fmt": 1, "items": [{"members": [0, 1]}, {"members": [0, 1]}], "attr": []})
    A.append({"op": "add_node_to_edge", "e": 0, "n": 2})
    A.append({"op": "remove_node", "n": 1, "strong": False, "remove_empty": True})
    A.append({"op": "remove_node", "n": 1, "strong": True, "remove_empty": True})
    A.append({"op": "remove_node", "n": 0, "strong": False, "remove_empty": False})
    A.append({"op": "remove_edge", "e": 0})
    A.append({"op": "remove_node_from_edge", "e": 0, "n": 1, "remove_empty": True})
    A.append({"op": "merge_duplicate_edges", "rename": "first", "merge_rule": "first"})
    A.append({"op": "double_edge_swap", "n1": 0, "n2": 2, "e1": 0, "e2": 1})
    A.append({"op": "clear_edges"})
    return A


def exhaustive_histories(depth):
    import copy as _copy
    import itertools as _it
    A = small_alphabet()
    for d in range(1, depth + 1):
        for combo in _it.product(range(len(A)), repeat=d):
            yield [_copy.deepcopy(A[i]) for i in combo]
