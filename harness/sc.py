"""SimplicialComplex: op-history generator, executor on the real implementation, canonical snapshot.

Same module interface as hg.py (so `sm.run_sm` drives it).  Ops are JSON request dicts of the line protocol of
lean/XgiModel/C03/Drive.lean.  `call` performs the public call on a real `xgi.SimplicialComplex` and records the
two order hints the model takes (they only reorder, see SC.lean): `hint` = member sets of the edges the call
created, in creation order (the order of automatic face ids is Python set-iteration order), `norder` = the nodes
the call created, in creation order; for `close` additionally `orders` = `list(frozenset)` of every simplex.

`copy` / `pickle` / `construct` (= `SimplicialComplex(S, **attr)`) are *queries* like `has_simplex`: the complex the
history runs on is left as it is, the clone is observed with `hg.snapshot` and travels in the snapshot under "clone"
(compared with `SC.copy` / `HG.pickleRoundTrip` / `SC.ofComplex` of the model, lean/XgiModel/C03/Copy.lean).  These ops
and `freeze` have generator weight 0 here; the checks that want them pass weights (props/c03.py does).
"""
import itertools
import pickle

import xgi

from . import hg
from .dhg import CallTimeout, guarded
from .core import dec_id, enc_attrs_req, enc_id, idkey

# ----------------------------------------------------------------------------- generation

NODE_UNIVERSES = [
    [0, 1, 2, 3, 4],
    [1, 2, 3, 4, 5, 6],
    ["a", "b", "c", "d", "e"],
    [0, 1, 2, "a", "b", "10"],
    [-1, 0, 7, 3, 12, 5, 2],
    [1, 2, 3, 4],
]
EDGE_UNIVERSES = [
    [0, 1, 2, 3, 4, 5, 8, 11],
    [0, 1, 2, 30],
    ["e0", "e1", "x", "y", 0],
    [0, 1, 5, "e", "10", -2, 7],
    [3, 2, 1, 0, 9, 15],
]
ATTR_KEYS = hg.ATTR_KEYS
ATTR_VALS = hg.ATTR_VALS
MAX_ORDERS = [None, None, None, 0, 1, 1, 2, 2, 3, 4]
# documented / declared defaults of keyword parameters: a generated call leaves some of them out (op["omit"]); the op
# then carries the default as its value, which is what the model is asked to perform (see dhg.DEFAULTS)
DEFAULTS = {
    "add_simplices_from": {"max_order": None}, "add_edges_from": {"max_order": None},
    "add_weighted_simplices_from": {"max_order": None, "weight": "weight"},
    "add_weighted_edges_from": {"max_order": None, "weight": "weight"},
    "cleanup": {"isolates": False, "connected": True, "relabel": True, "in_place": True},
    "clear": {"remove_net_attr": True},
}


class Gen:
    OPS = {
        "add_simplex": 16, "add_simplices_from": 18, "add_weighted_simplices_from": 4,
        "remove_simplex_id": 8, "remove_simplex_ids_from": 6, "remove_node": 6, "remove_nodes_from": 3,
        "add_edge": 3, "add_edges_from": 3, "add_weighted_edges_from": 1, "remove_edge": 2, "remove_edges_from": 2,
        "close": 2, "cleanup": 2, "has_simplex": 6, "add_node": 2, "add_nodes_from": 1, "clear": 0.3,
        "clear_edges": 0.3, "freeze": 0, "copy": 0, "pickle": 0, "construct": 0,
    }

    def __init__(self, rng, weights=None, malformed=0.03):
        self.rng = rng
        self.nodes = rng.choice(NODE_UNIVERSES)
        self.eids = rng.choice(EDGE_UNIVERSES)
        self.malformed = malformed
        self.weights = weights or {}
        self.seen = []            # member lists generated so far (for already-present / overlapping simplices)

    def node(self):
        if self.rng.random() < self.malformed:
            return None
        return self.rng.choice(self.nodes)

    def eid(self):
        if self.rng.random() < self.malformed:
            return None
        return self.rng.choice(self.eids)

    def members(self, lo=1, hi=6):
        r = self.rng
        x = r.random()
        if x < 0.03:
            ms = []                                             # empty simplex (malformed)
        elif x < 0.25 and self.seen:
            base = list(r.choice(self.seen))                    # already present / sub-face / overlapping
            y = r.random()
            if y < 0.35:
                ms = base[:]
                r.shuffle(ms)
            elif y < 0.7 and len(base) > 1:
                ms = r.sample(base, r.randint(1, len(base) - 1))
            else:
                ms = base + [self.node()]
        else:
            k = min(r.choice([1, 2, 2, 3, 3, 3, 4, 4, 5, 6]), hi)
            k = max(k, lo)
            if r.random() < 0.08:
                ms = [self.node() for _ in range(k)]             # may repeat a node / contain None
            else:
                ms = r.sample(self.nodes, min(k, len(self.nodes)))
                if r.random() < self.malformed:
                    ms[r.randrange(len(ms))] = None
        if ms and None not in ms:
            self.seen.append(list(dict.fromkeys(ms)))
        return [enc_id(m) for m in ms]

    def attrs(self, p=0.4):
        if self.rng.random() > p:
            return {}
        return {self.rng.choice(ATTR_KEYS): self.rng.choice(ATTR_VALS) for _ in range(self.rng.randint(1, 2))}

    def item(self, fmt):
        it = {"members": self.members()}
        if fmt in (2, 4, 5):
            it["idx"] = enc_id(self.eid())
        if fmt in (3, 4):
            it["attr"] = enc_attrs_req(self.attrs(0.6))
        return it

    def items(self, fmt, lo=0, hi=4):
        items = [self.item(fmt) for _ in range(self.rng.randint(lo, hi))]
        if fmt == 5:                                             # dict keys are unique
            seen, out = set(), []
            for it in items:
                if repr(it["idx"]) not in seen:
                    seen.add(repr(it["idx"])); out.append(it)
            items = out
        return items

    def witems(self):
        wname = self.rng.choice(["weight", "w"])
        items = [{"members": self.members(), "attr": [[wname, self.rng.choice([1, 2, 5])]]}
                 for _ in range(self.rng.randint(0, 3))]
        at = {k: v for k, v in self.attrs(0.3).items() if k != "weight"}   # `weight` is a parameter name
        return wname, items, at

    def some_ids(self):
        r = self.rng
        pool = list(range(0, 14)) + self.eids
        return [enc_id(r.choice(pool)) if r.random() > self.malformed else None for _ in range(r.randint(0, 4))]

    def op(self):
        op = self._op()
        d = DEFAULTS.get(op["op"])
        if d and self.rng.random() < 0.35:
            omit = [k for k in d if (k == "in_place" or k in op) and self.rng.random() < 0.6]
            if "weight" in omit:           # the weight name is also the key of the items' attribute
                if any(it["attr"][0][0] != "weight" for it in op["items"]) or any(k == "weight" for k, _ in op["attr"]):
                    omit.remove("weight")
            for k in omit:
                if k != "in_place":
                    op[k] = d[k]
            if omit:
                op["omit"] = omit
        return op

    def _op(self):
        w = dict(self.OPS)
        w.update(self.weights)
        names = list(w)
        r = self.rng
        name = r.choices(names, [w[n] for n in names])[0]
        b = lambda p=0.5: r.random() < p
        if name in ("add_simplex", "add_edge"):
            idx = "$auto" if b(0.55) else enc_id(self.eid())
            return {"op": name, "members": self.members(), "idx": idx, "attr": enc_attrs_req(self.attrs())}
        if name in ("add_simplices_from", "add_edges_from"):
            fmt = r.choice([1, 1, 1, 2, 3, 4, 5, 5])
            return {"op": name, "fmt": fmt, "items": self.items(fmt), "max_order": r.choice(MAX_ORDERS),
                    "attr": enc_attrs_req(self.attrs(0.3)), "share_sets": "iter" if r.random() < 0.1 else False}
        if name in ("add_weighted_simplices_from", "add_weighted_edges_from"):
            wname, items, at = self.witems()
            return {"op": name, "weight": wname, "items": items, "max_order": r.choice(MAX_ORDERS), "attr": enc_attrs_req(at)}
        if name in ("remove_simplex_id", "remove_edge"):
            e = enc_id(r.choice(list(range(0, 10)) + self.eids)) if r.random() > self.malformed else None
            return {"op": name, "e": e}
        if name in ("remove_simplex_ids_from", "remove_edges_from"):
            return {"op": name, "es": self.some_ids()}
        if name == "remove_node":
            return {"op": name, "n": enc_id(self.node())}
        if name == "remove_nodes_from":
            return {"op": name, "ns": [enc_id(self.node()) for _ in range(r.randint(0, 3))]}
        if name == "close":
            return {"op": name}
        if name == "cleanup":
            return {"op": name, "isolates": b(), "connected": b(), "relabel": b(0.4)}
        if name == "has_simplex":
            return {"op": name, "members": self.members(0, 6)}
        if name == "add_node":
            return {"op": name, "n": enc_id(self.node()), "attr": enc_attrs_req(self.attrs())}
        if name == "add_nodes_from":
            items = []
            for _ in range(r.randint(0, 3)):
                it = {"n": enc_id(self.node())}
                if b(0.4):
                    it["attr"] = enc_attrs_req(self.attrs(0.9))
                items.append(it)
            return {"op": name, "items": items, "attr": enc_attrs_req(self.attrs(0.3))}
        if name == "clear":
            return {"op": name, "remove_net_attr": b()}
        if name in ("clear_edges", "freeze", "copy", "pickle"):
            return {"op": name}
        if name == "construct":
            return {"op": name, "attr": enc_attrs_req(self.attrs(0.4))}
        raise AssertionError(name)


def gen_history(rng, lo=1, hi=30, weights=None, malformed=0.03):
    g = Gen(rng, weights, malformed)
    k = rng.randint(lo, hi)
    ops = []
    if rng.random() < 0.6:            # a well-formed bulk start makes non-trivial states likely
        fmt = rng.choice([1, 1, 2, 3, 4, 5])
        items = g.items(fmt, 1, 4)
        for it in items:
            it["members"] = [m for m in it["members"] if m is not None] or [enc_id(g.nodes[0])]
            if "idx" in it and it["idx"] is None:
                it["idx"] = enc_id(g.eids[-1])
        if fmt == 5:
            seen, out = set(), []
            for it in items:
                if repr(it["idx"]) not in seen:
                    seen.add(repr(it["idx"])); out.append(it)
            items = out
        ops.append({"op": "add_simplices_from", "fmt": fmt, "items": items, "max_order": None, "attr": []})
    ops += [g.op() for _ in range(k)]
    return ops


# ----------------------------------------------------------------------------- execution on the implementation

_RES = {}
_CLONE = {}


def _clone_snap(T):
    """observation of a clone: the undirected snapshot without the outcome field"""
    c = hg.snapshot(T, "ok")
    c.pop("out", None)
    return c


def _kw(op, **kw):
    """the keyword arguments of the call: those named in op["omit"] are left to the library's defaults"""
    return {k: v for k, v in kw.items() if k not in op.get("omit", ())}


def _plain(S, op):
    """the public call itself"""
    name = op["op"]
    A = hg._attrs
    if name in ("add_simplex", "add_edge"):
        ms = [dec_id(m) for m in op["members"]]
        kw = {} if op["idx"] == "$auto" else {"idx": dec_id(op["idx"])}
        if op["idx"] is None:
            kw = {"idx": None}
            op["idx"] = "$auto"                                # idx=None *is* the automatic id
        return getattr(S, name)(ms, **kw, **A(op["attr"]))
    if name in ("add_simplices_from", "add_edges_from"):
        return getattr(S, name)(hg._ebunch(op["fmt"], op["items"], op.get("share_sets", False)), **_kw(op, max_order=op["max_order"]), **A(op["attr"]))
    if name in ("add_weighted_simplices_from", "add_weighted_edges_from"):
        eb = [[dec_id(m) for m in it["members"]] + [it["attr"][0][1]] for it in op["items"]]
        return getattr(S, name)(eb, **_kw(op, max_order=op["max_order"], weight=op["weight"]), **A(op["attr"]))
    if name in ("remove_simplex_id", "remove_edge"):
        return getattr(S, name)(dec_id(op["e"]))
    if name in ("remove_simplex_ids_from", "remove_edges_from"):
        return getattr(S, name)([dec_id(e) for e in op["es"]])
    if name == "remove_node":
        return S.remove_node(dec_id(op["n"]))
    if name == "remove_nodes_from":
        return S.remove_nodes_from([dec_id(n) for n in op["ns"]])
    if name == "close":
        return S.close()
    if name == "cleanup":
        return S.cleanup(**_kw(op, isolates=op["isolates"], connected=op["connected"], relabel=op["relabel"], in_place=True))
    if name == "has_simplex":
        _RES[id(S)] = bool(S.has_simplex([dec_id(m) for m in op["members"]]))
        return
    if name == "add_node":
        return S.add_node(dec_id(op["n"]), **A(op["attr"]))
    if name == "add_nodes_from":
        return S.add_nodes_from(hg._node_items(op["items"]), **A(op["attr"]))
    if name == "clear":
        return S.clear(**_kw(op, remove_net_attr=op["remove_net_attr"]))
    if name == "clear_edges":
        return S.clear_edges()
    if name == "freeze":
        return S.freeze()
    if name == "copy":
        _CLONE[id(S)] = _clone_snap(S.copy())
        return
    if name == "pickle":
        _CLONE[id(S)] = _clone_snap(pickle.loads(pickle.dumps(S)))
        return
    if name == "construct":
        _CLONE[id(S)] = _clone_snap(xgi.SimplicialComplex(S, **A(op["attr"])))
        return
    raise AssertionError(name)


HINTED = {"add_simplex", "add_edge", "add_simplices_from", "add_edges_from", "add_weighted_simplices_from",
          "add_weighted_edges_from", "close", "cleanup"}


def _enc_or_none(x):
    try:
        return enc_id(x)
    except ValueError:
        return None


def call(S, op):
    """perform the call; record the order hints (creation order of new edges / new nodes) for the model"""
    name = op["op"]
    _RES.pop(id(S), None)
    _CLONE.pop(id(S), None)
    if name not in HINTED:
        return _plain(S, op)
    pre_e, pre_n = set(S.edges), set(S.nodes)
    if name == "close":
        op["orders"] = [[_enc_or_none(x) for x in m] for m in S.edges.members()]
    try:
        return _plain(S, op)
    finally:
        try:
            pos = {n: i for i, n in enumerate(S.nodes)}
            new = [e for e in S.edges if e not in pre_e]
            op["hint"] = [[_enc_or_none(x) for x in sorted(S.edges.members(e), key=lambda n: pos.get(n, len(pos)))] for e in new]
            op["norder"] = [_enc_or_none(n) for n in S.nodes if n not in pre_n]
        except Exception:  # noqa  (state unreadable after a defect: the model gets no hints)
            op["hint"], op["norder"] = [], []


def apply_impl(S, op):
    """the call under the watchdog of dhg.guarded: a call that does not return ends with outcome "err:hang" """
    hung = S.__dict__.get("_verif_hung")
    if hung is not None:                 # the complex of a call that never returned is garbage: the history ends there
        return "err:hang", hung
    out, exc = hg.apply_impl(S, op, callf=guarded(call))
    if isinstance(exc, CallTimeout):
        out = "err:hang"
        S.__dict__["_verif_hung"] = exc
    return out, exc


def member_sets(S):
    return [frozenset(S.edges.members(e)) for e in S.edges]


def snapshot(S, out="ok"):
    """hg.snapshot plus: `res` (answer of a has_simplex query op), `has` (the subsets of the current node set,
    as sorted id lists, for which `has_simplex` answers True — evaluated through the public method) and `memtype`
    (ids whose members are not handed out as a frozenset)"""
    if S.__dict__.get("_verif_hung") is not None:
        # after a call that never returned the object may hold millions of entries: observe an empty complex instead
        # (the predicate reports `call-does-not-return` from the outcome alone)
        s = hg.snapshot(xgi.SimplicialComplex(), out)
        s.update(res=_RES.pop(id(S), None), clone=_CLONE.pop(id(S), None), memtype=[], has=None)
        return s
    try:
        s = hg.snapshot(S, out)
    except ValueError as ex:
        # an object that is no ID of the model's domain is stored as a node / simplex (what a wrong edit of the library
        # may do with a one-shot iterator): the history goes on with the snapshot of an empty complex marked "garbage",
        # which the predicate reports (harness/props/c03.py `id-outside-domain`) and the model cannot match
        s = hg.snapshot(xgi.SimplicialComplex(), out)
        s.update(garbage=str(ex)[:200], res=_RES.pop(id(S), None), clone=_CLONE.pop(id(S), None), memtype=[], has=None)
        return s
    s["res"] = _RES.pop(id(S), None)
    s["clone"] = _CLONE.pop(id(S), None)
    # ids whose member container, as handed out by S.edges.members(e), is not a frozenset (the documented, hashable form)
    nf = []
    for e in S.edges:
        try:
            if not isinstance(S.edges.members(e), frozenset):
                nf.append(_enc_or_none(e))
        except Exception:  # noqa  (unreadable members are reported by "mem")
            pass
    s["memtype"] = nf
    nodes = list(S.nodes)
    has = []
    if len(nodes) <= 8:
        for k in range(0, len(nodes) + 1):
            for c in itertools.combinations(nodes, k):
                try:
                    if S.has_simplex(c):
                        has.append(sorted((_enc_or_none(x) for x in c), key=idkey))
                except Exception as ex:  # noqa
                    has.append("$err:" + type(ex).__name__)
        s["has"] = has
    else:
        s["has"] = None
    return s


def to_request(op):
    return {k: v for k, v in op.items() if k not in ("weight", "share_sets", "omit")}


def nontrivial(snap, kinds):
    return len(kinds) >= 2 and any(isinstance(m[1], list) and len(m[1]) >= 3 for m in snap["mem"])


NAME = "SimplicialComplex"
CORPUS = "SC"    # shared corpus directory corpus/SC/*.json: run first by every check that drives this state machine
factory = xgi.SimplicialComplex
