"""SimplicialComplex: op-history generator, executor on the real implementation, canonical snapshot.

Same module interface as hg.py (so `sm.run_sm` drives it).  Ops are JSON request dicts of the line protocol of
lean/XgiModel/C03/Drive.lean.  `call` performs the public call on a real `xgi.SimplicialComplex` and records the
two order hints the model takes (they only reorder, see SC.lean): `hint` = member sets of the edges the call
created, in creation order (the order of automatic face ids is Python set-iteration order), `norder` = the nodes
the call created, in creation order; for `close` additionally `orders` = `list(frozenset)` of every simplex.

`copy` / `pickle` / `construct` (= `SimplicialComplex(S, **attr)`) are *queries* like `has_simplex`: the complex the
history runs on is left as it is, the clone is observed with `hg.snapshot` and travels in the snapshot under "clone"
(compared with `SC.copy` / `HG.pickleRoundTrip` / `SC.ofComplex` of the model, lean/XgiModel/C03/Copy.lean).  These ops
and `freeze` have generator weight 0 here; the checks that want them pass weights (props/c03.py does).
"""
import copy
import itertools
import pickle
import random as pyrandom

import xgi

from . import hg
from .dhg import CallTimeout, guarded, xdec, xenc, xsafe, is_exotic, model_request, XIDS
from .core import enc_attrs, enc_attrs_req, enc_id, idkey

dec_id = xdec      # IDs of the ops are decoded with the extended decoder of dhg.py ("$x:…" = uuid / float / numpy / huge int)

# ----------------------------------------------------------------------------- generation

NODE_UNIVERSES = [
    [0, 1, 2, 3, 4],
    [1, 2, 3, 4, 5, 6],
    ["a", "b", "c", "d", "e"],
    [0, 1, 2, "a", "b", "10"],
    [-1, 0, 7, 3, 12, 5, 2],
    [1, 2, 3, 4],
]
EDGE_UNIVERSES = [
    [0, 1, 2, 3, 4, 5, 8, 11],
    [0, 1, 2, 30],
    ["e0", "e1", "x", "y", 0],
    [0, 1, 5, "e", "10", -2, 7],
    [3, 2, 1, 0, 9, 15],
]
# Opt-in input families (a check asks for them through `weights`, e.g. {"$exotic": 0.15}; the value is the share of
# histories that use the family.  Default 0: the other checks that drive this state machine keep their inputs):
#   "$exotic"    explicit simplex IDs outside int/str (dhg.XIDS: uuid.UUID, 10**309, 1.0 / 2.0 / 2.5, numpy ints, bytes)
#   "$tuples"    tuple node labels (TUPLE_UNIVERSES); bulk format 1 then hands every member container over as a set
#                (a list of tuple labels is misread by the format sniffing — V4 of review 2, outside this check)
#   "$large"     one history on >= 70 labels with simplex IDs above 2**53 (regime family)
#   "$containers" member containers other than list: set, frozenset, tuple, dict keys, numpy array, generator
TUPLE_UNIVERSES = [
    [(0, 0), (0, 1), (1, 1), (1, 0)],
    [(0, 0), (0, 1), (1, 1), "a", 2],
    [("a", 1), ("a", 2), ("b", 1), (0,), (1, 2, 3)],
]
BIG = 2 ** 53
ATTR_KEYS = hg.ATTR_KEYS
ATTR_VALS = hg.ATTR_VALS
MAX_ORDERS = [None, None, None, 0, 1, 1, 2, 2, 3, 4]
# documented / declared defaults of keyword parameters: a generated call leaves some of them out (op["omit"]); the op
# then carries the default as its value, which is what the model is asked to perform (see dhg.DEFAULTS)
DEFAULTS = {
    "add_simplices_from": {"max_order": None}, "add_edges_from": {"max_order": None},
    "add_weighted_simplices_from": {"max_order": None, "weight": "weight"},
    "add_weighted_edges_from": {"max_order": None, "weight": "weight"},
    "cleanup": {"isolates": False, "connected": True, "relabel": True, "in_place": True},
    "clear": {"remove_net_attr": True},
}


def _dkey(j):
    """the dict key an encoded ID stands for (np.int64(7) == 7.0 == 7 are one key)"""
    if isinstance(j, str) and j.startswith("$x:np:"):
        return repr(int(j[6:]))
    if isinstance(j, str) and j.startswith("$x:float:") and float(j[9:]).is_integer():
        return repr(int(float(j[9:])))
    return repr(j)


def _hashable(j):
    return tuple(j) if isinstance(j, list) else j


class Gen:
    OPS = {
        "add_simplex": 16, "add_simplices_from": 18, "add_weighted_simplices_from": 4,
        "remove_simplex_id": 8, "remove_simplex_ids_from": 6, "remove_node": 6, "remove_nodes_from": 3,
        "add_edge": 3, "add_edges_from": 3, "add_weighted_edges_from": 1, "remove_edge": 2, "remove_edges_from": 2,
        "close": 2, "cleanup": 2, "has_simplex": 6, "add_node": 2, "add_nodes_from": 1, "clear": 0.3,
        "clear_edges": 0.3, "freeze": 0, "copy": 0, "pickle": 0, "construct": 0,
        "random_edge_shuffle": 0, "double_edge_swap": 0, "remove_node_from_edge": 0, "add_node_to_edge": 0,
    }

    def __init__(self, rng, weights=None, malformed=0.03):
        self.rng = rng
        self.nodes = rng.choice(NODE_UNIVERSES)
        self.eids = rng.choice(EDGE_UNIVERSES)
        self.malformed = malformed
        self.weights = dict(weights or {})
        fam = {k: self.weights.pop(k, 0) for k in ("$exotic", "$tuples", "$large", "$containers")}
        self.exotic = rng.random() < fam["$exotic"]
        self.containers = rng.random() < fam["$containers"]
        self.tuples = rng.random() < fam["$tuples"]
        if self.tuples:
            self.nodes = rng.choice(TUPLE_UNIVERSES)
        self.large = fam["$large"] and rng.random() < fam["$large"]
        if self.large:
            self.nodes = list(range(100, 172)) + [BIG + 2, BIG + 4]
            self.eids = [BIG + 1, BIG + 3, BIG + 5, 0, 3, 200]
        self.seen = []            # member lists generated so far (for already-present / overlapping simplices)

    def node(self):
        if self.rng.random() < self.malformed:
            return None
        return self.rng.choice(self.nodes)

    def eid(self):
        if self.rng.random() < self.malformed:
            return None
        if self.exotic and self.rng.random() < 0.4:
            return self.rng.choice(XIDS)
        return self.rng.choice(self.eids)

    def first_set(self, op):
        """tuple labels: the first simplex of a format-1 bunch decides the format and must be a set (see $tuples above),
        hence duplicate-free and without None"""
        if self.tuples and op["fmt"] == 1 and op["items"]:
            first = op["items"][0]
            first["members"] = [m for m in dict.fromkeys(map(_hashable, first["members"])) if m is not None]
            first["members"] = [list(m) if isinstance(m, tuple) else m for m in first["members"]]

    def container(self):
        """how the members of one simplex are handed over (None = a list)"""
        if self.tuples:
            return self.rng.choice(["set", "frozenset"])
        if self.containers:
            return self.rng.choice(["set", "frozenset", "tuple", "dictkeys", "nparray", "iter", "list"])
        return None

    def members(self, lo=1, hi=6):
        r = self.rng
        x = r.random()
        if x < 0.03:
            ms = []                                             # empty simplex (malformed)
        elif x < 0.25 and self.seen:
            base = list(r.choice(self.seen))                    # already present / sub-face / overlapping
            y = r.random()
            if y < 0.35:
                ms = base[:]
                r.shuffle(ms)
            elif y < 0.7 and len(base) > 1:
                ms = r.sample(base, r.randint(1, len(base) - 1))
            else:
                ms = base + [self.node()]
        else:
            k = min(r.choice([1, 2, 2, 3, 3, 3, 4, 4, 5, 6]), hi)
            k = max(k, lo)
            if r.random() < 0.08:
                ms = [self.node() for _ in range(k)]             # may repeat a node / contain None
            else:
                ms = r.sample(self.nodes, min(k, len(self.nodes)))
                if r.random() < self.malformed:
                    ms[r.randrange(len(ms))] = None
        if ms and None not in ms:
            self.seen.append(list(dict.fromkeys(ms)))
        return [enc_id(m) for m in ms]

    def attrs(self, p=0.4):
        if self.rng.random() > p:
            return {}
        return {self.rng.choice(ATTR_KEYS): self.rng.choice(ATTR_VALS) for _ in range(self.rng.randint(1, 2))}

    def item(self, fmt):
        it = {"members": self.members()}
        if fmt in (2, 4, 5):
            it["idx"] = xenc(self.eid())
        if fmt in (3, 4):
            it["attr"] = enc_attrs_req(self.attrs(0.6))
        return it

    def items(self, fmt, lo=0, hi=4):
        items = [self.item(fmt) for _ in range(self.rng.randint(lo, hi))]
        if fmt == 5:                                             # dict keys are unique
            seen, out = set(), []
            for it in items:
                if _dkey(it["idx"]) not in seen:
                    seen.add(_dkey(it["idx"])); out.append(it)
            items = out
        return items

    def witems(self):
        wname = self.rng.choice(["weight", "w"])
        items = [{"members": self.members(), "attr": [[wname, self.rng.choice([1, 2, 5])]]}
                 for _ in range(self.rng.randint(0, 3))]
        at = {k: v for k, v in self.attrs(0.3).items() if k != "weight"}   # `weight` is a parameter name
        return wname, items, at

    def some_ids(self):
        r = self.rng
        pool = list(range(0, 14)) + self.eids + (XIDS if self.exotic else [])
        return [xenc(r.choice(pool)) if r.random() > self.malformed else None for _ in range(r.randint(0, 4))]

    def op(self):
        op = self._op()
        d = DEFAULTS.get(op["op"])
        if d and self.rng.random() < 0.35:
            omit = [k for k in d if (k == "in_place" or k in op) and self.rng.random() < 0.6]
            if "weight" in omit:           # the weight name is also the key of the items' attribute
                if any(it["attr"][0][0] != "weight" for it in op["items"]) or any(k == "weight" for k, _ in op["attr"]):
                    omit.remove("weight")
            for k in omit:
                if k != "in_place":
                    op[k] = d[k]
            if omit:
                op["omit"] = omit
        return op

    def _op(self):
        w = dict(self.OPS)
        w.update(self.weights)
        names = list(w)
        r = self.rng
        name = r.choices(names, [w[n] for n in names])[0]
        b = lambda p=0.5: r.random() < p
        if name in ("add_simplex", "add_edge"):
            idx = "$auto" if b(0.55) else xenc(self.eid())
            return {"op": name, "members": self.members(), "idx": idx, "attr": enc_attrs_req(self.attrs())}
        if name in ("add_simplices_from", "add_edges_from"):
            fmt = r.choice([1, 1, 1, 2, 3, 4, 5, 5])
            op = {"op": name, "fmt": fmt, "items": self.items(fmt), "max_order": r.choice(MAX_ORDERS),
                  "attr": enc_attrs_req(self.attrs(0.3)), "share_sets": "iter" if r.random() < 0.1 else False}
            c = self.container()
            if c and op["items"] and r.random() < 0.35:
                # the same simplex twice in one bunch (members in another order), a few positions apart
                dup = copy.deepcopy(r.choice(op["items"]))
                r.shuffle(dup["members"])
                if "idx" in dup:
                    dup["idx"] = xenc(self.eid())
                if fmt != 5 or _dkey(dup["idx"]) not in {_dkey(it["idx"]) for it in op["items"]}:
                    op["items"].append(dup)
            self.first_set(op)
            if c:
                op["share_sets"] = False
                op["containers"] = c
                op["bunch"] = r.choice(["list", "list", "tuple", "iter"])
            return op
        if name in ("add_weighted_simplices_from", "add_weighted_edges_from"):
            wname, items, at = self.witems()
            return {"op": name, "weight": wname, "items": items, "max_order": r.choice(MAX_ORDERS), "attr": enc_attrs_req(at)}
        if name in ("remove_simplex_id", "remove_edge"):
            e = xenc(r.choice(list(range(0, 10)) + self.eids + (XIDS if self.exotic else []))) if r.random() > self.malformed else None
            return {"op": name, "e": e}
        if name in ("remove_simplex_ids_from", "remove_edges_from"):
            return {"op": name, "es": self.some_ids()}
        if name == "remove_node":
            return {"op": name, "n": enc_id(self.node())}
        if name == "remove_nodes_from":
            return {"op": name, "ns": [enc_id(self.node()) for _ in range(r.randint(0, 3))]}
        if name == "close":
            return {"op": name}
        if name == "cleanup":
            return {"op": name, "isolates": b(), "connected": b(), "relabel": b(0.4)}
        if name == "has_simplex":
            return {"op": name, "members": self.members(0, 6)}
        if name == "add_node":
            return {"op": name, "n": enc_id(self.node()), "attr": enc_attrs_req(self.attrs())}
        if name == "add_nodes_from":
            items = []
            for _ in range(r.randint(0, 3)):
                it = {"n": enc_id(self.node())}
                if b(0.4):
                    it["attr"] = enc_attrs_req(self.attrs(0.9))
                items.append(it)
            return {"op": name, "items": items, "attr": enc_attrs_req(self.attrs(0.3))}
        if name == "clear":
            return {"op": name, "remove_net_attr": b()}
        if name in ("clear_edges", "freeze", "copy", "pickle"):
            return {"op": name}
        if name == "construct":
            return {"op": name, "attr": enc_attrs_req(self.attrs(0.4))}
        # inherited Hypergraph mutators (weight 0 unless the check names them)
        if name == "random_edge_shuffle":
            return {"op": name, "e1": xenc(r.choice(list(range(0, 6)) + self.eids)), "e2": xenc(r.choice(list(range(0, 6)) + self.eids)),
                    "seed": r.randrange(10 ** 6)}
        if name == "double_edge_swap":
            return {"op": name, "n1": enc_id(self.node()), "n2": enc_id(self.node()),
                    "e1": xenc(r.choice(list(range(0, 6)) + self.eids)), "e2": xenc(r.choice(list(range(0, 6)) + self.eids))}
        if name in ("remove_node_from_edge", "add_node_to_edge"):
            return {"op": name, "e": xenc(r.choice(list(range(0, 6)) + self.eids)), "n": enc_id(self.node())}
        raise AssertionError(name)


def gen_history(rng, lo=1, hi=30, weights=None, malformed=0.03):
    g = Gen(rng, weights, malformed)
    k = rng.randint(lo, hi)
    ops = []
    if g.large:
        # regime family: >= 70 node labels (two of them above 2**53), >= 70 simplex IDs, explicit IDs above 2**53
        items, used = [], set()
        for j in range(40):
            ms = rng.sample(g.nodes, rng.choice([2, 2, 3, 3, 4]))
            if j < 2:
                ms[0] = g.nodes[-1 - j]
            key = frozenset(ms)
            if key in used:
                continue
            used.add(key)
            items.append({"members": [enc_id(m) for m in ms], "idx": BIG + 10 + 2 * j if j % 3 else 300 + j})
            g.seen.append(ms)
        fmt = rng.choice([2, 5])
        ops.append({"op": "add_simplices_from", "fmt": fmt, "items": items, "max_order": None, "attr": []})
        ops += [g.op() for _ in range(min(k, 6))]
        return ops
    if rng.random() < 0.6:            # a well-formed bulk start makes non-trivial states likely
        fmt = rng.choice([1, 1, 2, 3, 4, 5])
        items = g.items(fmt, 1, 4)
        for it in items:
            it["members"] = [m for m in it["members"] if m is not None] or [enc_id(g.nodes[0])]
            if "idx" in it and it["idx"] is None:
                it["idx"] = enc_id(g.eids[-1])
        if fmt == 5:
            seen, out = set(), []
            for it in items:
                if _dkey(it["idx"]) not in seen:
                    seen.add(_dkey(it["idx"])); out.append(it)
            items = out
        op0 = {"op": "add_simplices_from", "fmt": fmt, "items": items, "max_order": None, "attr": []}
        c = g.container()
        g.first_set(op0)
        if c:
            op0.update(containers=c, bunch="list")
        ops.append(op0)
    ops += [g.op() for _ in range(k)]
    return ops


# ----------------------------------------------------------------------------- execution on the implementation

_RES = {}
_CLONE = {}


def sids(it):
    return sorted((xsafe(x) for x in it), key=idkey)


def hg_snapshot(H, out="ok"):
    """hg.snapshot with the extended ID reader (dhg.xsafe): exotic simplex IDs stay readable"""
    nodes, edges = list(H.nodes), list(H.edges)
    s = {"out": out, "nodes": [xsafe(n) for n in nodes], "edges": [xsafe(e) for e in edges]}
    mem, memb, nattr, eattr = [], [], [], []
    for e in edges:
        try:
            mem.append([xsafe(e), sids(H.edges.members(e))])
        except Exception as ex:  # noqa
            mem.append([xsafe(e), "$err:" + type(ex).__name__])
        try:
            eattr.append([xsafe(e), enc_attrs(H.edges[e])])
        except Exception:  # noqa
            eattr.append([xsafe(e), "$missing"])
    for n in nodes:
        try:
            memb.append([xsafe(n), sids(H.nodes.memberships(n))])
        except Exception as ex:  # noqa
            memb.append([xsafe(n), "$err:" + type(ex).__name__])
        try:
            nattr.append([xsafe(n), enc_attrs(H.nodes[n])])
        except Exception:  # noqa
            nattr.append([xsafe(n), "$missing"])
    s.update(mem=mem, memb=memb, nattr=nattr, eattr=eattr)
    na, ea = getattr(H, "_node_attr", None), getattr(H, "_edge_attr", None)
    s["nattrK"] = sids(na.keys()) if na is not None else sids(nodes)
    s["eattrK"] = sids(ea.keys()) if ea is not None else sids(edges)
    s["net"] = enc_attrs(getattr(H, "_net_attr", {}))
    try:
        s["uid"] = next(copy.copy(H._edge_uid))
    except Exception:  # noqa
        s["uid"] = "$err"
    s["frozen"] = bool(H.is_frozen)
    return s


def _clone_snap(T):
    """observation of a clone: the undirected snapshot without the outcome field"""
    c = hg_snapshot(T, "ok")
    c.pop("out", None)
    return c


def _kw(op, **kw):
    """the keyword arguments of the call: those named in op["omit"] are left to the library's defaults"""
    return {k: v for k, v in kw.items() if k not in op.get("omit", ())}


def _container(kind, ms, it=None):
    """the member container of one simplex.  Set-like containers are used only for duplicate-free member lists without
    None (a set would hide the repetition the model is told about); their iteration order is written back into the item
    so that the model sees the members in the order the implementation iterates them."""
    import numpy as np
    plain = len(set(map(repr, ms))) == len(ms) and None not in ms
    if kind in ("set", "frozenset") and plain:
        try:
            st = set(ms) if kind == "set" else frozenset(ms)
        except TypeError:
            return ms
        if it is not None:
            it["members"] = [xenc(x) for x in st]
        return st
    if kind == "tuple":
        return tuple(ms)
    if kind == "dictkeys" and plain:
        return dict.fromkeys(ms).keys()
    if kind == "nparray" and ms and all(type(m) is int and abs(m) < 2 ** 62 for m in ms):
        return np.array(ms)
    if kind == "iter":
        return iter(ms)
    return ms


def _ebunch(op):
    """ebunch of a bulk call whose op names a member container (`containers`) and a bunch container (`bunch`).
    Format 1: the library sniffs the format from the first simplex; a set / frozenset there is a member set whatever it
    holds, a list whose first label is a str next to non-str labels is refused — the first simplex stays a list exactly
    when that rule applies to it (the model's format-1 rule is the list rule)."""
    fmt, items, kind = op["fmt"], op["items"], op["containers"]
    out = {} if fmt == 5 else []
    for j, it in enumerate(items):
        ms = [dec_id(m) for m in it["members"]]
        first_list = fmt == 1 and j == 0 and ms and isinstance(ms[0], str) and not all(isinstance(m, str) for m in ms)
        c = ms if first_list else _container(kind, ms, it)
        if fmt == 1 and j == 0 and isinstance(c, (set, frozenset)):
            # a set in first position is format 1 whatever it holds: the model's list rule must not fire on the order in
            # which the set happens to iterate (the order of the members is immaterial to the model otherwise: faces and
            # nodes are ordered by the hints)
            it["members"] = sorted(it["members"], key=lambda m: isinstance(m, str))
        if fmt == 5:
            out[dec_id(it["idx"])] = c
        elif fmt == 1:
            out.append(c)
        elif fmt == 2:
            out.append((c, dec_id(it["idx"])))
        elif fmt == 3:
            out.append((c, hg._attrs(it.get("attr", []))))
        else:
            out.append((c, dec_id(it["idx"]), hg._attrs(it.get("attr", []))))
    if fmt != 5 and op.get("bunch") == "tuple":
        return tuple(out)
    if fmt != 5 and op.get("bunch") == "iter":
        return iter(out)
    return out


INHERITED = ("random_edge_shuffle", "double_edge_swap", "remove_node_from_edge", "add_node_to_edge")


def _plain(S, op):
    """the public call itself"""
    name = op["op"]
    A = hg._attrs
    if name == "random_edge_shuffle":
        pyrandom.seed(op["seed"])
        return S.random_edge_shuffle(dec_id(op["e1"]), dec_id(op["e2"]))
    if name == "double_edge_swap":
        return S.double_edge_swap(dec_id(op["n1"]), dec_id(op["n2"]), dec_id(op["e1"]), dec_id(op["e2"]))
    if name in ("remove_node_from_edge", "add_node_to_edge"):
        return getattr(S, name)(dec_id(op["e"]), dec_id(op["n"]))
    if name in ("add_simplices_from", "add_edges_from") and (op.get("containers") or is_exotic(op["items"])):
        op.setdefault("containers", "list")
        return getattr(S, name)(_ebunch(op), **_kw(op, max_order=op["max_order"]), **A(op["attr"]))
    if name in ("add_simplex", "add_edge"):
        ms = [dec_id(m) for m in op["members"]]
        kw = {} if op["idx"] == "$auto" else {"idx": dec_id(op["idx"])}
        if op["idx"] is None:
            kw = {"idx": None}
            op["idx"] = "$auto"                                # idx=None *is* the automatic id
        return getattr(S, name)(ms, **kw, **A(op["attr"]))
    if name in ("add_simplices_from", "add_edges_from"):
        return getattr(S, name)(hg._ebunch(op["fmt"], op["items"], op.get("share_sets", False)), **_kw(op, max_order=op["max_order"]), **A(op["attr"]))
    if name in ("add_weighted_simplices_from", "add_weighted_edges_from"):
        eb = [[dec_id(m) for m in it["members"]] + [it["attr"][0][1]] for it in op["items"]]
        return getattr(S, name)(eb, **_kw(op, max_order=op["max_order"], weight=op["weight"]), **A(op["attr"]))
    if name in ("remove_simplex_id", "remove_edge"):
        return getattr(S, name)(dec_id(op["e"]))
    if name in ("remove_simplex_ids_from", "remove_edges_from"):
        return getattr(S, name)([dec_id(e) for e in op["es"]])
    if name == "remove_node":
        return S.remove_node(dec_id(op["n"]))
    if name == "remove_nodes_from":
        return S.remove_nodes_from([dec_id(n) for n in op["ns"]])
    if name == "close":
        return S.close()
    if name == "cleanup":
        return S.cleanup(**_kw(op, isolates=op["isolates"], connected=op["connected"], relabel=op["relabel"], in_place=True))
    if name == "has_simplex":
        _RES[id(S)] = bool(S.has_simplex([dec_id(m) for m in op["members"]]))
        return
    if name == "add_node":
        return S.add_node(dec_id(op["n"]), **A(op["attr"]))
    if name == "add_nodes_from":
        return S.add_nodes_from(hg._node_items(op["items"]), **A(op["attr"]))
    if name == "clear":
        return S.clear(**_kw(op, remove_net_attr=op["remove_net_attr"]))
    if name == "clear_edges":
        return S.clear_edges()
    if name == "freeze":
        return S.freeze()
    if name == "copy":
        _CLONE[id(S)] = _clone_snap(S.copy())
        return
    if name == "pickle":
        _CLONE[id(S)] = _clone_snap(pickle.loads(pickle.dumps(S)))
        return
    if name == "construct":
        _CLONE[id(S)] = _clone_snap(xgi.SimplicialComplex(S, **A(op["attr"])))
        return
    raise AssertionError(name)


HINTED = {"add_simplex", "add_edge", "add_simplices_from", "add_edges_from", "add_weighted_simplices_from",
          "add_weighted_edges_from", "close", "cleanup"}


def _enc_or_none(x):
    try:
        return enc_id(x)
    except ValueError:
        return None


def call(S, op):
    """perform the call; record the order hints (creation order of new edges / new nodes) for the model"""
    name = op["op"]
    _RES.pop(id(S), None)
    _CLONE.pop(id(S), None)
    if name not in HINTED:
        return _plain(S, op)
    pre_e, pre_n = set(S.edges), set(S.nodes)
    if name == "close":
        op["orders"] = [[_enc_or_none(x) for x in m] for m in S.edges.members()]
    try:
        return _plain(S, op)
    finally:
        try:
            pos = {n: i for i, n in enumerate(S.nodes)}
            new = [e for e in S.edges if e not in pre_e]
            op["hint"] = [[_enc_or_none(x) for x in sorted(S.edges.members(e), key=lambda n: pos.get(n, len(pos)))] for e in new]
            op["norder"] = [_enc_or_none(n) for n in S.nodes if n not in pre_n]
        except Exception:  # noqa  (state unreadable after a defect: the model gets no hints)
            op["hint"], op["norder"] = [], []


def apply_impl(S, op):
    """the call under the watchdog of dhg.guarded: a call that does not return ends with outcome "err:hang" """
    hung = S.__dict__.get("_verif_hung")
    if hung is not None:                 # the complex of a call that never returned is garbage: the history ends there
        return "err:hang", hung
    out, exc = hg.apply_impl(S, op, callf=guarded(call))
    if isinstance(exc, CallTimeout):
        out = "err:hang"
        S.__dict__["_verif_hung"] = exc
    return out, exc


def member_sets(S):
    return [frozenset(S.edges.members(e)) for e in S.edges]


def snapshot(S, out="ok"):
    """hg.snapshot plus: `res` (answer of a has_simplex query op), `has` (the subsets of the current node set,
    as sorted id lists, for which `has_simplex` answers True — evaluated through the public method) and `memtype`
    (ids whose members are not handed out as a frozenset)"""
    if S.__dict__.get("_verif_hung") is not None:
        # after a call that never returned the object may hold millions of entries: observe an empty complex instead
        # (the predicate reports `call-does-not-return` from the outcome alone)
        s = hg_snapshot(xgi.SimplicialComplex(), out)
        s.update(res=_RES.pop(id(S), None), clone=_CLONE.pop(id(S), None), memtype=[], has=None)
        return s
    try:
        s = hg_snapshot(S, out)
        bad = [x for x in s["nodes"] + s["edges"] if isinstance(x, str) and x.startswith("$bad:")]
        if bad:
            raise ValueError(f"an object that was never given as an ID is stored as a node / simplex: {bad[:3]}")
    except ValueError as ex:
        # an object that is no ID of the model's domain is stored as a node / simplex (what a wrong edit of the library
        # may do with a one-shot iterator): the history goes on with the snapshot of an empty complex marked "garbage",
        # which the predicate reports (harness/props/c03.py `id-outside-domain`) and the model cannot match
        s = hg_snapshot(xgi.SimplicialComplex(), out)
        s.update(garbage=str(ex)[:200], res=_RES.pop(id(S), None), clone=_CLONE.pop(id(S), None), memtype=[], has=None)
        return s
    s["res"] = _RES.pop(id(S), None)
    s["clone"] = _CLONE.pop(id(S), None)
    # ids whose member container, as handed out by S.edges.members(e), is not a frozenset (the documented, hashable form)
    nf = []
    for e in S.edges:
        try:
            if not isinstance(S.edges.members(e), frozenset):
                nf.append(xsafe(e))
        except Exception:  # noqa  (unreadable members are reported by "mem")
            pass
    s["memtype"] = nf
    nodes = list(S.nodes)
    has = []
    if len(nodes) <= 8:
        for k in range(0, len(nodes) + 1):
            for c in itertools.combinations(nodes, k):
                try:
                    if S.has_simplex(c):
                        has.append(sorted((_enc_or_none(x) for x in c), key=idkey))
                except Exception as ex:  # noqa
                    has.append("$err:" + type(ex).__name__)
        s["has"] = has
    else:
        s["has"] = None
    return s


def to_request(op):
    if op["op"] in ("random_edge_shuffle", "add_node_to_edge"):
        return {"op": "inherited_refused"}       # "… is not implemented in SimplicialComplex" (no write, library error)
    if op["op"] in INHERITED or op.get("containers") == "nparray":
        # (a numpy array as member container is refused by `if not members` with ValueError — before the first write when
        #  it is the first simplex, half-way otherwise; the model has no arrays: predicate only)
        return {"op": "outside-model"}
    return model_request({k: v for k, v in op.items() if k not in ("weight", "share_sets", "omit", "containers", "bunch", "seed")})


def nontrivial(snap, kinds):
    return len(kinds) >= 2 and any(isinstance(m[1], list) and len(m[1]) >= 3 for m in snap["mem"])


NAME = "SimplicialComplex"
CORPUS = "SC"    # shared corpus directory corpus/SC/*.json: run first by every check that drives this state machine
factory = xgi.SimplicialComplex
