"""Pure-function correspondence: generators of small networks, encoders, and a generic runner.

A *case* is a JSON request for a driver (one line); `impl(case)` computes the canonical result on the real
code; `pred(case, impl_result)` evaluates the property's own predicate on the implementation and returns a
list of (failure_class, detail).  The runner compares canon(model response) with the impl result.
"""
import itertools
import json
import math

import xgi

from .core import Infra, canon, enc_id, idkey, jhash, run_driver

LABELS = [
    lambda k: list(range(k)),
    lambda k: list(range(1, k + 1)),
    lambda k: [3 * i + 2 for i in range(k)][::-1],
    lambda k: ["abcdefgh"[i] for i in range(k)],
    lambda k: [str(10 + i) for i in range(k)],
    lambda k: ([0, "a", 1, "b", 2, "c", 3, "d"])[:k],
    lambda k: [-i for i in range(k)],
]
EDGE_IDS = [
    lambda m: list(range(m)),
    lambda m: list(range(m))[::-1],
    lambda m: [2 * i + 1 for i in range(m)],
    lambda m: ["e%d" % i for i in range(m)],
    lambda m: (list(range(1, m)) + [0]) if m else [],
    lambda m: ([5, "x", 0, "y", 2, "z", 9, "w", 11, "v", 12, "u"])[:m],
]


def gen_hypergraph(rng, max_nodes=6, max_edges=6, max_size=4, labels=None, edge_ids=None, allow_empty_edges=False,
                   isolated=True, multi=True, singletons=True, uniform_labels=False):
    """returns (nodes, edges) with edges = [(eid, [members])]; node/edge insertion order as listed"""
    k = rng.randint(1, max_nodes)
    lab = (labels or rng.choice(LABELS[:5] if uniform_labels else LABELS))(k)
    rng.shuffle(lab) if rng.random() < 0.5 else None
    m = rng.randint(0, max_edges)
    eid = (edge_ids or rng.choice(EDGE_IDS))(m)
    edges = []
    for i in range(m):
        lo = 1 if singletons else 2
        lo = 0 if (allow_empty_edges and rng.random() < 0.1) else lo
        sz = min(k, rng.randint(lo, max_size))
        if sz < lo:
            continue
        ms = rng.sample(lab, sz)
        if multi and edges and rng.random() < 0.15:
            ms = list(rng.choice(edges)[1])
        edges.append((eid[i], ms))
    if not multi:
        seen, out = set(), []
        for e, ms in edges:
            if frozenset(ms) not in seen:
                seen.add(frozenset(ms)); out.append((e, ms))
        edges = out
    if not isolated:
        used = {n for _, ms in edges for n in ms}
        lab = [n for n in lab if n in used]
    return lab, edges


def build(nodes, edges, cls=None):
    H = (cls or xgi.Hypergraph)()
    H.add_nodes_from(nodes)
    for e, ms in edges:
        H.add_edge(ms, idx=e)
    return H


def enc_net(nodes, edges):
    return {"nodes": [enc_id(n) for n in nodes], "edges": [[enc_id(e), [enc_id(x) for x in ms]] for e, ms in edges]}


def enc_net_of(H):
    """encode a real undirected network in view order (members sorted canonically)"""
    return {"nodes": [enc_id(n) for n in H.nodes],
            "edges": [[enc_id(e), sorted((enc_id(x) for x in H.edges.members(e)), key=idkey)] for e in H.edges]}


def all_small_hypergraphs(n_nodes=4, max_edges=3, min_size=1):
    """exhaustive small scope: every set of <= max_edges distinct edges over range(n_nodes) (sizes >= min_size)"""
    nodes = list(range(n_nodes))
    subsets = [list(c) for r in range(min_size, n_nodes + 1) for c in itertools.combinations(nodes, r)]
    for k in range(max_edges + 1):
        for combo in itertools.combinations(subsets, k):
            yield nodes, [(i, ms) for i, ms in enumerate(combo)]


def approx_equal(x, frac, tol=1e-9):
    """the float rule of DESIGN §3: implementation float x vs exact rational given as "p/q" | int | "nan" | "inf" """
    if isinstance(frac, str):
        if frac == "nan":
            return isinstance(x, float) and math.isnan(x)
        if frac in ("inf", "-inf"):
            return x == float(frac)
        p, q = frac.split("/") if "/" in frac else (frac, "1")
        v = int(p) / int(q)
    else:
        v = frac
    try:
        return abs(float(x) - v) <= tol * max(1.0, abs(v))
    except Exception:  # noqa
        return False


def run_fn(ctx, driver, cases, impl, pred=None, compare=None, name=None, nontrivial=lambda c, r: True):
    """cases: list of request dicts.  impl(case) -> canonical result (dict) or raises.  Returns disagreements."""
    name = name or driver
    results = []
    for c in cases:
        try:
            r = impl(c)
        except Infra:
            raise
        except Exception as ex:  # noqa
            r = {"out": "err:" + type(ex).__name__, "msg": str(ex)[:200]}
        results.append(r)
        ctx.evaluations += 1
        ctx.stats["fn:" + str(c.get("f", name))] += 1
        if isinstance(r, dict) and str(r.get("out", "")).startswith("err"):
            ctx.stats["impl_" + r["out"]] += 1
        if nontrivial(c, r):
            ctx.nontrivial.add(jhash([c, r]))
        if pred:
            for cls, detail in pred(c, r) or []:
                ctx.violation(str(c.get("f", name)), cls, c, detail=detail)
        ctx.sample({"request": c, "impl": r}, cap=3)
    resps = run_driver(driver, cases)
    dis = []
    for c, r, m in zip(cases, results, resps):
        if m.get("out") == "bad-op":
            raise Infra(f"model {driver} rejected request (harness defect): {json.dumps(c)[:300]}")
        if m.get("out") == "unmodelled":
            ctx.stats["unmodelled"] += 1
            continue
        ctx.traces += 1
        mc = canon(m)
        same = compare(c, r, mc) if compare else (r == mc)
        if not same:
            dis.append((c, r, mc))
            ctx.stats["disagree:" + str(c.get("f", name))] += 1
    if dis:
        ctx.extra.setdefault("disagreements", [])
        for c, r, mc in dis[:5]:
            ctx.extra["disagreements"].append({"request": c, "impl": r, "model": mc})
        ctx.extra["disagreements_total"] = ctx.extra.get("disagreements_total", 0) + len(dis)
        ctx.broken.append(f"correspondence {name}: model and implementation differ on {len(dis)} of {len(cases)} cases "
                          f"(functions: {sorted({str(c.get('f', name)) for c, _, _ in dis})})")
    return dis


def conclude(ctx, ok, dis, search=None):
    """verdict logic of DESIGN §4.3 after a run: if an obligation or the correspondence broke and no concrete
    failing input is known, run `search()` (property predicate on more inputs), then report unproven."""
    from .core import unlisted_violations
    if (dis or not ok) and not unlisted_violations(ctx):
        if search:
            search()
        if not unlisted_violations(ctx):
            ctx.violation("model-tie", "unproven", {"broken": ctx.broken, "example": ctx.extra.get("disagreements", [])[:1]},
                          detail="; ".join(ctx.broken)[:500], kind="unproven", broken=ctx.broken)
