"""C10, second-round families (predicate only; nothing here is sent to the Lean driver).

The first-round generator (`c10_lib`) stays inside one regime: <= 6 nodes, int / str IDs, the three base classes, a
fresh network per call, the container each `to_*` function happens to return.  The families below leave that regime on
one axis at a time and evaluate the statement's predicate on the real code, with real Python objects on both sides:

  labels      tuple node labels and tuple edge IDs (nested, mixed with int / str), numpy integers, floats, integers
              above 2**53, pairs equal under str() (1 / "1")
  containers  every container the documentation allows where the library's own `to_*` output is only one of them:
              hyperedge lists of lists / tuples / sets / frozensets / dict views / generators / numpy arrays, dict values
              likewise, bipartite edge lists of lists / tuples / generator, every accepted matrix type (ndarray, np.matrix,
              csr/csc/coo/lil _array and _matrix), label lists as list / tuple / 1-D object array on BOTH sides, dataframes
              with a filtered / concatenated / shuffled / string index
  classes     a trivial subclass of each of the three classes as the source (and as create_using)
  regime      one large network per run: >= 70 nodes, >= 130 parallel edges, a label above 2**53
  held        convert, edit the SAME source object (count-preserving: an edge removed and another added under the same ID,
              a member exchanged; ordinary: add / remove), convert again with the same and with another converter; the
              second answer must be that of a freshly built equal network
  directed    the directed hyperedge list / dict `DiEdgeView.dimembers()` (and the same as tuple pairs) through
              xgi.to_dihypergraph WITHOUT create_using, with the class, with an instance, and through the constructor

A case is JSON: {"f": "wide", "family", "conv", "variant", "net": spec[, "edit"]}; IDs are encoded by `enc` below
(tuples -> {"$t": […]}, numpy ints -> {"$np": dtype, "v": n}, floats -> {"$f": repr}).
"""
import itertools
import warnings

import networkx as nx  # noqa: F401  (bipartite graphs come back as networkx objects)
import numpy as np
import pandas as pd
import scipy.sparse as sp
import xgi

# ----------------------------------------------------------------------------- ID encoding


def enc(x):
    if isinstance(x, bool):
        return {"$b": bool(x)}
    if isinstance(x, np.integer):
        return {"$np": type(x).__name__, "v": int(x)}
    if isinstance(x, int) or isinstance(x, str):
        return x
    if isinstance(x, float):
        return {"$f": repr(float(x))}
    if isinstance(x, tuple):
        return {"$t": [enc(y) for y in x]}
    if isinstance(x, frozenset):
        return {"$fs": sorted((enc(y) for y in x), key=repr)}
    raise ValueError(f"label outside the wide domain: {x!r}")


def dec(j):
    if isinstance(j, dict):
        if "$t" in j:
            return tuple(dec(y) for y in j["$t"])
        if "$np" in j:
            return getattr(np, j["$np"])(j["v"])
        if "$f" in j:
            return float(j["$f"])
        if "$b" in j:
            return bool(j["$b"])
        if "$fs" in j:
            return frozenset(dec(y) for y in j["$fs"])
    return j


class MyH(xgi.Hypergraph):
    """a trivial subclass"""


class MyD(xgi.DiHypergraph):
    """a trivial subclass"""


class MyS(xgi.SimplicialComplex):
    """a trivial subclass"""


BASE = {"hg": xgi.Hypergraph, "dhg": xgi.DiHypergraph, "sc": xgi.SimplicialComplex}
SUB = {"hg": MyH, "dhg": MyD, "sc": MyS}
TO_FN = {"hg": "to_hypergraph", "dhg": "to_dihypergraph", "sc": "to_simplicial_complex"}


def kind(N):
    if isinstance(N, xgi.SimplicialComplex):
        return "sc"
    if isinstance(N, xgi.DiHypergraph):
        return "dhg"
    if isinstance(N, xgi.Hypergraph):
        return "hg"
    return "other:" + type(N).__name__


def build(spec):
    """the network a spec describes, built through add_node / add_edge(idx=) / add_simplex(idx=) only"""
    cls = (SUB if spec.get("sub") else BASE)[spec["cls"]]
    N = cls()
    for n in spec["nodes"]:
        N.add_node(dec(n))
    with warnings.catch_warnings():
        warnings.simplefilter("ignore")
        edges = spec["edges"]
        if spec["cls"] == "sc":      # one bulk call: listed simplices keep their IDs and their order, missing faces follow
            N.add_simplices_from([([dec(x) for x in e[1]], dec(e[0])) for e in edges])
            edges = []
        for e in edges:
            if spec["cls"] == "dhg":
                N.add_edge(([dec(x) for x in e[1]], [dec(x) for x in e[2]]), idx=dec(e[0]))
            elif spec["cls"] == "sc":
                N.add_simplex([dec(x) for x in e[1]], idx=dec(e[0]))
            else:
                N.add_edge([dec(x) for x in e[1]], idx=dec(e[0]))
    return N


def spec_of(N, sub=False):
    k = kind(N)
    s = {"cls": k, "sub": sub, "nodes": [enc(n) for n in N.nodes]}
    if k == "dhg":
        s["edges"] = [[enc(e), sorted((enc(x) for x in N.edges.tail(e)), key=repr), sorted((enc(x) for x in N.edges.head(e)), key=repr)] for e in N.edges]
    else:
        s["edges"] = [[enc(e), sorted((enc(x) for x in N.edges.members(e)), key=repr)] for e in N.edges]
    return s


def inc(N):
    """the incidence set of a real network: {(node, edge)} / {(node, edge, 'in' | 'out')}"""
    if isinstance(N, xgi.DiHypergraph):
        out = set()
        for e in N.edges:
            out |= {(n, e, "in") for n in N.edges.tail(e)} | {(n, e, "out") for n in N.edges.head(e)}
        return out
    return {(n, e) for e in N.edges for n in N.edges.members(e)}


def show(s):
    return sorted(map(repr, s))


# ----------------------------------------------------------------------------- label pools

BIG = 2 ** 53 + 1
POOLS = {
    "tuple": [(0, 0), (0, 1), (1, 1), (1, 0), (2, 1), (0, 2), (2, 2)],
    "tuple-mixed": [(0, 1), 0, 1, "a", ("a", 0), (1,), (0, (1, 2)), "b", 2],
    "tuple-str": [("a", "b"), ("b", "a"), ("a",), ("b", "c", "d"), (), ("a", "a"), ("c",)],
    "numpy-int": [np.int64(0), np.int64(3), np.int64(1), np.int32(7), np.int64(2), np.int64(11), np.int64(5)],
    "float": [0.5, 2.5, -1.25, 1e20, 3.75, 1e-7, 7.125],
    "big-int": [BIG, 2 ** 64 + 3, -(2 ** 55) - 1, 2 ** 53, 5, 2 ** 70, 2 ** 53 + 2],
    "str-collide": [1, "1", 0, "0", "a", 10, "10"],
    "int": [0, 1, 2, 3, 4, 5, 6],
    "str": ["a", "b", "c", "d", "e", "f", "g"],
}
EDGE_POOLS = {
    "auto": None,
    "tuple": [(1, 2), ("a", 0), (0,), (0, 0), ((1, 2), 3), (2, 1), ()],
    "str-collide": [0, "0", 1, "1", "x", 2, "2"],
    "big-int": [2 ** 53 + 1, 2 ** 53 + 2, 2 ** 64, -(2 ** 60) - 1, 2 ** 53 + 3, 3, 4],
    "str": ["e0", "e1", "e2", "e3", "e4", "e5", "e6"],
    "numpy-int": [np.int64(4), np.int64(0), np.int64(9), np.int32(2), np.int64(1), np.int64(6), np.int64(3)],
}


def gen_spec(rng, cls, pool=None, epool=None, sub=False, max_nodes=6, max_edges=5):
    pool = pool or rng.choice(list(POOLS))
    epool = epool or rng.choice(list(EDGE_POOLS))
    labels = list(POOLS[pool])
    rng.shuffle(labels)
    n = rng.randint(2, min(max_nodes, len(labels)))
    nodes = labels[:n]
    m = rng.randint(1, max_edges)
    eids = list(range(m)) if EDGE_POOLS[epool] is None else rng.sample(EDGE_POOLS[epool], min(m, len(EDGE_POOLS[epool])))
    m = len(eids)
    edges = []
    seen = set()
    for k in range(m):
        size = rng.randint(1, min(4, n))
        ms = rng.sample(nodes, size)
        if cls == "dhg":
            cut = rng.randint(0, size)
            tail, head = ms[:cut], ms[cut:]
            if rng.random() < 0.25:
                x = rng.choice(ms)
                tail, head = list(dict.fromkeys(tail + [x])), list(dict.fromkeys(head + [x]))
            edges.append([eids[k], tail, head])
        else:
            if cls == "sc":
                if len(ms) < 2 or frozenset(ms) in seen:
                    continue
                seen.add(frozenset(ms))
            edges.append([eids[k], ms])
    if rng.random() < 0.5:
        used = {x for e in edges for part in e[1:] for x in part}
        nodes = [x for x in nodes if x in used] or nodes      # no isolated node: every converter carries the node set then
    spec = {"cls": cls, "sub": sub, "nodes": [enc(x) for x in nodes],
            "edges": [[enc(e[0])] + [[enc(x) for x in part] for part in e[1:]] for e in edges],
            "pool": pool, "epool": epool}
    if cls == "sc":
        # a complex is closed: present it as the library built it (faces with automatic IDs)
        N = build(spec)
        s = spec_of(N, sub)
        s.update(pool=pool, epool=epool)
        if spec_of(build(s), sub)["edges"] != s["edges"]:
            raise RuntimeError(f"generator defect: a closed complex is not rebuilt as listed: {s}")
        return s
    return spec


# ----------------------------------------------------------------------------- containers

def obj_array(xs):
    a = np.empty(len(xs), dtype=object)
    for i, x in enumerate(xs):
        a[i] = x
    return a


MEMBER_CONTAINERS = {
    "list": list, "tuple": tuple, "set": set, "frozenset": frozenset,
    "dict-keys": lambda ms: dict.fromkeys(ms).keys(),
    "dict-values": lambda ms: dict(enumerate(ms)).values(),
    "generator": lambda ms: (x for x in list(ms)),
    "iterator": lambda ms: iter(list(ms)),
    "ndarray": lambda ms: obj_array(list(ms)) if any(isinstance(x, (tuple, frozenset)) for x in ms) else np.array(list(ms), dtype=object if len({type(x) for x in ms}) > 1 or any(isinstance(x, int) and abs(x) >= 2 ** 62 for x in ms) else None),
}
MATRIX_CONTAINERS = {
    "ndarray": lambda I: np.asarray(I.todense()) if sp.issparse(I) else np.asarray(I),
    "np.matrix": lambda I: np.matrix(I.todense() if sp.issparse(I) else I),
    "csr_array": sp.csr_array, "csc_array": sp.csc_array, "coo_array": sp.coo_array, "lil_array": sp.lil_array,
    "csr_matrix": sp.csr_matrix, "csc_matrix": sp.csc_matrix, "coo_matrix": sp.coo_matrix, "lil_matrix": sp.lil_matrix,
    "int8-ndarray": lambda I: (np.asarray(I.todense()) if sp.issparse(I) else np.asarray(I)).astype(np.int8),
    "bool-ndarray": lambda I: (np.asarray(I.todense()) if sp.issparse(I) else np.asarray(I)).astype(bool),
    "float-csr": lambda I: sp.csr_array(I).astype(float),
}
LABEL_CONTAINERS = {"list": list, "tuple": tuple, "object-array": lambda xs: obj_array(list(xs))}
FRAME_VARIANTS = ["filtered", "concatenated", "shuffled", "string-index", "offset-index", "multiindex-reset"]


def reframe(df, variant, rng):
    """the same rows under another index (returns frame and the rows kept, in order)"""
    if variant == "filtered":
        extra = pd.DataFrame([["zz-extra", "zz-extra-edge"]], columns=list(df.columns))
        full = pd.concat([extra, df], ignore_index=True)
        return full[full[df.columns[1]] != "zz-extra-edge"]
    if variant == "concatenated":
        k = len(df) // 2
        return pd.concat([df.iloc[:k].reset_index(drop=True), df.iloc[k:].reset_index(drop=True)])
    if variant == "shuffled":
        return df.sample(frac=1, random_state=rng.randrange(2 ** 31))
    if variant == "string-index":
        d = df.copy()
        d.index = [f"r{i}" for i in range(len(d))]
        return d
    if variant == "offset-index":
        d = df.copy()
        d.index = range(10, 10 + len(d))
        return d
    if variant == "multiindex-reset":
        d = df.copy()
        d.index = range(len(d) - 1, -1, -1)      # reversed labels: .loc[i] reads the rows backwards
        return d
    raise ValueError(variant)


# ----------------------------------------------------------------------------- one conversion

SNIFF = {"first": None}
AMBIGUOUS = "first-edge-read-as-members-id-pair"


def ambiguous_first_edge(first):
    """the list format of add_edges_from / add_simplices_from is told from the (members, id[, attrs]) formats by looking
    at the first element of the first edge: when that first edge is not a set and its first member is itself iterable
    (a tuple, a frozenset, a string next to non-strings) the member list is read as a (members, id) pair.  This is the
    input class of finding V4 (review 2), repaired - if at all - in xgi/core (C04 / C05), reported here under one class."""
    from collections.abc import Iterable
    if first is None or isinstance(first, (set, frozenset)):
        return False
    try:
        elems = list(first)
    except TypeError:
        return False
    if not elems:
        return False
    return isinstance(elems[0], Iterable) and not all(isinstance(x, str) for x in elems)


class Skip(Exception):
    """the variant does not apply to this network"""


def sortable(ms):
    try:
        sorted(ms)
        return True
    except TypeError:
        return False


def route(rep, tgt, via, sub=False):
    """representation -> network of kind `tgt` by the named public route; returns (network, note)"""
    cls = (SUB if sub else BASE)[tgt]
    tofn = getattr(xgi, TO_FN[tgt])
    if via == "ctor":
        return cls(rep), None
    if via == "to":
        return tofn(rep), None
    if via == "to-class":
        return tofn(rep, create_using=cls), None
    if via == "to-instance":
        inst = cls()
        inst.add_node("stale-node")
        R = tofn(rep, create_using=inst)
        note = None
        if R is not None and R is not inst:
            note = "the network returned is not the instance given as create_using"
        if "stale-node" in inst.nodes:
            note = "the instance given as create_using was not cleared"
        return inst, note
    raise ValueError(via)


def convert(N, conv, variant, rng):
    """run one converter pair on the real network N; returns (result network, expected incidence set, expected node
    set or None, expected kind or None).  `variant` chooses container / option; raises Skip when inapplicable."""
    k = kind(N)
    src = inc(N)
    nodes = set(N.nodes)
    if conv == "hyperedge_list":
        if k == "dhg":
            raise Skip
        L = xgi.to_hyperedge_list(N)
        ids = list(N.edges)
        if variant != "lib":
            first = list(L[0]) if L else None        # the order in which the first edge presents its members
            L = [MEMBER_CONTAINERS[variant](ms if i else first) for i, ms in enumerate(L)]
            SNIFF["first"] = None if variant in ("set", "frozenset") else first
        want = {(n, i) for i, e in enumerate(ids) for n in N.edges.members(e)}
        if k == "sc":
            R = xgi.from_hyperedge_list(L, create_using=type(N))
            got = {frozenset(R.edges.members(e)) for e in R.edges}
            exp = {frozenset(N.edges.members(e)) for e in N.edges}
            return R, None, None, "sc", (got, exp)
        R = xgi.from_hyperedge_list(L)
        return R, want, None, "hg", None
    if conv == "hyperedge_dict":
        if k == "dhg":
            raise Skip
        D = xgi.to_hyperedge_dict(N)
        if variant != "lib":
            D = {e: MEMBER_CONTAINERS[variant](ms) for e, ms in D.items()}
        if k == "sc":
            R = xgi.from_simplex_dict(D)
            return R, src, None, "sc", None
        return xgi.from_hyperedge_dict(D), src, None, "hg", None
    if conv == "bipartite_edgelist":
        L = xgi.to_bipartite_edgelist(N)
        if variant == "lists":
            L = [list(t) for t in L]
        elif variant == "tuple-outer":
            L = tuple(L)
        elif variant in ("array-outer", "arrays"):
            # 'tuple, list, or array of tuples, lists, or arrays, each of size 2' (object cells keep every label as it is)
            if not L:
                raise Skip
            A = np.empty((len(L), len(L[0])), dtype=object)
            for i, t in enumerate(L):
                for j, x in enumerate(t):
                    A[i, j] = x
            L = A if variant == "array-outer" else [A[i] for i in range(len(A))]
        elif variant != "lib":
            raise Skip
        R = xgi.from_bipartite_edgelist(L)
        return R, src, None, "dhg" if k == "dhg" else "hg", None
    if conv in ("incidence_labelled", "incidence_unlabelled"):
        if k == "dhg":
            raise Skip
        mat, lab = (variant.split("|") + ["list"])[:2] if variant != "lib" else ("lib", "list")
        I, rd, cd = xgi.to_incidence_matrix(N, sparse=rng.random() < 0.5, index=True)
        rows, cols = [rd[i] for i in range(len(rd))], [cd[j] for j in range(len(cd))]
        if not rows or not cols:
            raise Skip
        M = I if mat == "lib" else MATRIX_CONTAINERS[mat](I)
        if conv == "incidence_unlabelled":
            pos_n = {n: i for i, n in enumerate(rows)}
            pos_e = {e: j for j, e in enumerate(cols)}
            want = {(pos_n[n], pos_e[e]) for n, e in src}
            via = lab if lab in ("ctor", "to", "to-class", "to-instance") else None
            if via:
                R, note = route(M, "hg", via)
                return R, want, None, "hg", ("note", note) if note else None
            return xgi.from_incidence_matrix(M), want, None, "hg", None
        R = xgi.from_incidence_matrix(M, nodelabels=LABEL_CONTAINERS[lab](rows), edgelabels=LABEL_CONTAINERS[lab](cols))
        return R, src, None, "hg", None
    if conv == "bipartite_graph":
        G, itn, ite = xgi.to_bipartite_graph(N, index=True)
        R = xgi.from_bipartite_graph(G)
        if k == "dhg":
            got = {(itn[n], ite[e], d) for n, e, d in inc(R)}
        else:
            got = {(itn[n], ite[e]) for n, e in inc(R)}
        return R, src, None, "dhg" if k == "dhg" else "hg", (got, src)
    if conv == "dataframe":
        if k == "dhg":
            raise Skip
        df = xgi.to_bipartite_pandas_dataframe(N)
        if variant != "lib":
            if len(df) < 2:
                raise Skip
            df = reframe(df, variant, rng)
        using = type(N) if k == "sc" else None
        R = xgi.from_bipartite_pandas_dataframe(df, create_using=using)
        if k == "sc":
            got = {frozenset(R.edges.members(e)) for e in R.edges}
            exp = {frozenset(N.edges.members(e)) for e in N.edges}
            return R, None, None, "sc", (got, exp)
        return R, src, None, "hg", None
    if conv == "hypergraph_dict":
        if k == "dhg":
            raise Skip
        ns, es = list(N.nodes), list(N.edges)
        if len({str(x) for x in ns}) != len(ns) or len({str(x) for x in es}) != len(es):
            raise Skip      # colliding casts are refused (first-round family)
        if any(not sortable(N.edges.members(e)) for e in es):
            raise Skip      # sorted() of an unorderable member set raises TypeError (first-round family)
        d = xgi.to_hypergraph_dict(N)
        R = xgi.from_hypergraph_dict(d)
        want = {(str(n), str(e)) for n, e in src}
        return R, want, {str(n) for n in ns}, "hg", None
    if conv == "hif_dict":
        d = xgi.to_hif_dict(N)
        R = xgi.from_hif_dict(d)
        return R, src, nodes, k, None
    if conv == "class":
        tgt, via = variant.split("|")
        if tgt == "dhg" and k != "dhg":
            raise Skip
        R, note = route(N, tgt, via)
        if tgt == "sc":
            got = {frozenset(R.edges.members(e)) for e in R.edges}
            exp = set()
            for e in N.edges:
                ms = list(N.edges.members(e))
                if ms:
                    exp.add(frozenset(ms))
                for j in range(2, len(ms)):
                    exp |= {frozenset(c) for c in itertools.combinations(ms, j)}
            kept = {e: frozenset(R.edges.members(e)) for e in R.edges if e in N.edges}
            seen, bad = set(), None
            for e in N.edges:
                ms = frozenset(N.edges.members(e))
                if ms and ms not in seen:
                    seen.add(ms)
                    if kept.get(e) != ms:
                        bad = e
            if bad is not None:
                got = got | {("source edge not kept under its ID", repr(bad))}
            return R, None, nodes, "sc", (got, exp)
        if tgt == "hg":
            want = {(n, e) for e in N.edges for n in N.edges.members(e)}
            return R, want, nodes, "hg", ("note", note) if note else None
        return R, src, nodes, "dhg", ("note", note) if note else None
    if conv in ("dimembers_list", "dimembers_dict", "dimembers_pairs"):
        if k != "dhg":
            raise Skip
        ids = list(N.edges)
        if conv == "dimembers_dict":
            rep = N.edges.dimembers(dtype=dict)
            want = src
        else:
            rep = N.edges.dimembers()
            if conv == "dimembers_pairs":      # the same pairs as plain tuples of tuples
                rep = [(tuple(t), tuple(h)) for t, h in rep]
            want = set()
            for i, e in enumerate(ids):
                want |= {(n, i, "in") for n in N.edges.tail(e)} | {(n, i, "out") for n in N.edges.head(e)}
        if not rep:
            raise Skip
        R, note = route(rep, "dhg", variant)
        return R, want, None, "dhg", ("note", note) if note else None
    raise ValueError(conv)


SITE = {"hyperedge_list": "from_hyperedge_list", "hyperedge_dict": "from_hyperedge_dict",
        "bipartite_edgelist": "from_bipartite_edgelist", "incidence_labelled": "from_incidence_matrix",
        "incidence_unlabelled": "from_incidence_matrix", "bipartite_graph": "from_bipartite_graph",
        "dataframe": "from_bipartite_pandas_dataframe", "hypergraph_dict": "from_hypergraph_dict",
        "hif_dict": "from_hif_dict", "dimembers_list": "to_dihypergraph", "dimembers_dict": "to_dihypergraph",
        "dimembers_pairs": "to_dihypergraph"}


def site_of(case):
    if case["conv"] == "class":
        return TO_FN[case["variant"].split("|")[0]]
    if case["conv"] == "incidence_unlabelled" and case["variant"].split("|")[-1] in ("ctor", "to", "to-class", "to-instance"):
        return "to_hypergraph"
    return SITE[case["conv"]]


def judge(N, conv, variant, rng):
    """[(failure_class, detail)] of one conversion of the real network N"""
    with warnings.catch_warnings():
        warnings.simplefilter("ignore")
        SNIFF["first"] = None
        try:
            R, want, wnodes, wkind, extra = convert(N, conv, variant, rng)
        except Skip:
            return None
        except Exception as ex:  # noqa
            if conv == "hyperedge_list" and ambiguous_first_edge(SNIFF["first"]):
                return [(AMBIGUOUS, f"{conv} [{variant}] on a {type(N).__name__}: first edge {SNIFF['first']!r} - raised {type(ex).__name__}: {str(ex)[:120]}")]
            return [("raises-" + type(ex).__name__, f"{conv} [{variant}] on a {type(N).__name__} raised {type(ex).__name__}: {str(ex)[:160]}")]
        if R is None:
            return [("converter-returns-none:" + conv, f"{conv} [{variant}] returned None")]
        fails = []
        try:
            if wkind and kind(R) != wkind:
                fails.append(("network-class", f"{conv} [{variant}]: result is a {type(R).__name__} ({kind(R)}), expected kind {wkind}"))
            if extra is not None and extra[0] == "note":
                fails.append(("create-using", f"{conv} [{variant}]: {extra[1]}"))
            elif extra is not None:
                got, exp = extra
                if got != exp:
                    fails.append(("incidence", f"{conv} [{variant}]: {show(got)} vs source {show(exp)}"))
            elif want is not None and not fails:
                got = inc(R)
                if got != want:
                    fails.append(("incidence", f"{conv} [{variant}]: incidences {show(got)} vs source {show(want)}"))
            if wnodes is not None and set(R.nodes) != wnodes:
                fails.append(("node-set", f"{conv} [{variant}]: nodes {show(R.nodes)} vs source {show(wnodes)}"))
        except Exception as ex:  # noqa  (a result that cannot even be read)
            fails.append(("unreadable-result", f"{conv} [{variant}]: reading the result raised {type(ex).__name__}: {str(ex)[:120]}"))
        if fails and conv == "hyperedge_list" and ambiguous_first_edge(SNIFF["first"]):
            return [(AMBIGUOUS, f"first edge {SNIFF['first']!r} - " + fails[0][1])]
        return fails


# ----------------------------------------------------------------------------- variants per family

ROUTES = ["ctor", "to", "to-class", "to-instance"]


def lib_variants(cls):
    """every converter pair on the library's own containers"""
    out = [("hyperedge_list", "lib"), ("hyperedge_dict", "lib"), ("bipartite_edgelist", "lib"), ("incidence_labelled", "lib"),
           ("incidence_unlabelled", "lib"), ("bipartite_graph", "lib"), ("dataframe", "lib"), ("hypergraph_dict", "lib"),
           ("hif_dict", "lib")]
    for tgt in ("hg", "sc") + (("dhg",) if cls == "dhg" else ()):
        for via in ROUTES:
            out.append(("class", f"{tgt}|{via}"))
    if cls == "dhg":
        for c in ("dimembers_list", "dimembers_dict", "dimembers_pairs"):
            out += [(c, v) for v in ROUTES]
    return out


def container_variants(cls):
    out = []
    for c in MEMBER_CONTAINERS:
        out += [("hyperedge_list", c), ("hyperedge_dict", c)]
    out += [("bipartite_edgelist", v) for v in ("lists", "tuple-outer", "array-outer", "arrays")]
    for m in MATRIX_CONTAINERS:
        out.append(("incidence_unlabelled", m))
        out.append(("incidence_labelled", m + "|list"))
    for lab in LABEL_CONTAINERS:
        out.append(("incidence_labelled", "lib|" + lab))
        out.append(("incidence_labelled", "csr_matrix|" + lab))
    for m in ("csr_matrix", "coo_matrix", "lil_matrix", "csc_matrix", "np.matrix", "csc_array"):
        for via in ROUTES:
            out.append(("incidence_unlabelled", m + "|" + via))
    out += [("dataframe", v) for v in FRAME_VARIANTS]
    return out


def run_case(case, rng):
    N = build(case["net"])
    return judge(N, case["conv"], case["variant"], rng)


def shrink(case, cls, rng, budget=60):
    """greedy: drop edges, unused nodes, members while the same clause still fails"""
    import copy
    cur = copy.deepcopy(case)
    if cur["net"]["cls"] == "sc":
        return cur

    def still(c):
        nonlocal budget
        budget -= 1
        try:
            r = run_case(c, rng)
        except Exception:  # noqa
            return False
        return bool(r) and cls in [k for k, _ in r]

    changed = True
    while changed and budget > 0:
        changed = False
        net = cur["net"]
        cands = []
        for i in range(len(net["edges"])):
            d = copy.deepcopy(cur); del d["net"]["edges"][i]; cands.append(d)
        used = {repr(x) for e in net["edges"] for part in e[1:] for x in part}
        for i, n in enumerate(net["nodes"]):
            if repr(n) not in used:
                d = copy.deepcopy(cur); del d["net"]["nodes"][i]; cands.append(d)
        for i, e in enumerate(net["edges"]):
            for p in range(1, len(e)):
                for j in range(len(e[p])):
                    if sum(len(x) for x in e[1:]) > 1:
                        d = copy.deepcopy(cur); del d["net"]["edges"][i][p][j]; cands.append(d)
        for d in cands:
            if budget <= 0:
                break
            if still(d):
                cur, changed = d, True
                break
    return cur


# ----------------------------------------------------------------------------- held objects

def edit(N, how, rng):
    """edit the real network in place; returns a JSON description (replayed by `apply_edit`) or None"""
    k = kind(N)
    edges, nodes = list(N.edges), list(N.nodes)
    if not edges or len(nodes) < 2:
        return None
    if how == "same-id":             # an edge removed and another edge added under the same ID: counts and IDs unchanged
        e = rng.choice(edges)
        if k == "sc":
            return None
        old = (set(N.edges.tail(e)), set(N.edges.head(e))) if k == "dhg" else set(N.edges.members(e))
        for _ in range(20):
            ms = rng.sample(nodes, rng.randint(1, min(3, len(nodes))))
            new = (set(ms[:1]), set(ms[1:])) if k == "dhg" else set(ms)
            if new != old:
                break
        else:
            return None
        return {"op": "same-id", "e": enc(e), "new": [[enc(x) for x in part] for part in (new if k == "dhg" else [new])]}
    if how == "swap-member":         # one incidence moved to another node: every count unchanged
        if k != "hg":
            return None
        cands = [(e, n, m) for e in edges for n in N.edges.members(e) for m in nodes if m not in N.edges.members(e)]
        if not cands:
            return None
        e, n, m = rng.choice(cands)
        return {"op": "swap-member", "e": enc(e), "out": enc(n), "in": enc(m)}
    if how == "add-edge":
        ms = rng.sample(nodes, min(2, len(nodes)))
        return {"op": "add-edge", "new": [[enc(x) for x in ms[:1]], [enc(x) for x in ms[1:]]] if k == "dhg" else [[enc(x) for x in ms]], "idx": "held-new"}
    if how == "remove-node":
        return {"op": "remove-node", "n": enc(rng.choice(nodes))}
    if how == "remove-edge":
        return {"op": "remove-edge", "e": enc(rng.choice(edges))}
    return None


def apply_edit(N, ed):
    k = kind(N)
    with warnings.catch_warnings():
        warnings.simplefilter("ignore")
        if ed["op"] == "same-id":
            e = dec(ed["e"])
            N.remove_edge(e)
            parts = [[dec(x) for x in p] for p in ed["new"]]
            N.add_edge((parts[0], parts[1]) if k == "dhg" else parts[0], idx=e)
        elif ed["op"] == "swap-member":
            e = dec(ed["e"])
            N.add_node_to_edge(e, dec(ed["in"]))
            N.remove_node_from_edge(e, dec(ed["out"]), remove_empty=False)
        elif ed["op"] == "add-edge":
            parts = [[dec(x) for x in p] for p in ed["new"]]
            if k == "sc":
                N.add_simplex(parts[0], idx=ed["idx"])
            else:
                N.add_edge((parts[0], parts[1]) if k == "dhg" else parts[0], idx=ed["idx"])
        elif ed["op"] == "remove-node":
            if k == "sc":
                N.remove_node(dec(ed["n"]))
            else:
                N.remove_node(dec(ed["n"]), strong=False)
        elif ed["op"] == "remove-edge":
            if k == "sc":
                N.remove_simplex_id(dec(ed["e"]))
            else:
                N.remove_edge(dec(ed["e"]))


def canon_rep(x):
    """a comparable form of whatever a to_* function returns"""
    if isinstance(x, tuple):
        return tuple(canon_rep(y) for y in x)
    if sp.issparse(x):
        return ("matrix", np.asarray(x.todense()).tolist())
    if isinstance(x, np.ndarray):
        return ("matrix", x.tolist())
    if isinstance(x, pd.DataFrame):
        return ("frame", sorted(map(repr, x.values.tolist())))
    if isinstance(x, (nx.Graph, nx.DiGraph)):
        return ("graph", sorted(repr((v, canon_rep(d))) for v, d in x.nodes(data=True)),
                sorted(repr((tuple(sorted(map(repr, (u, v)))) if not x.is_directed() else (u, v), canon_rep(d))) for u, v, d in x.edges(data=True)))
    if isinstance(x, dict):
        return ("dict", sorted((repr(k), repr(canon_rep(v))) for k, v in x.items()))
    if isinstance(x, (set, frozenset)):
        return ("set", sorted(map(repr, x)))
    if isinstance(x, list):
        if x and isinstance(x[0], dict):
            return ("records", sorted(repr(sorted(d.items(), key=repr)) for d in x))
        return ("list", [canon_rep(y) for y in x])
    if isinstance(x, xgi.SimplicialComplex):     # faces get automatic IDs from the counter: compared as member sets
        return ("net", "sc", sorted(map(repr, x.nodes)), sorted(repr(sorted(map(repr, x.edges.members(e)))) for e in x.edges))
    if isinstance(x, (xgi.Hypergraph, xgi.DiHypergraph)):
        return ("net", kind(x), sorted(map(repr, x.nodes)), sorted(map(repr, inc(x))))
    return repr(x)


def list_rep(x):
    """hyperedge lists / bipartite edge lists: an edge list is ordered by edge, a set inside is not"""
    return canon_rep(x)


TO_FNS = {
    "to_hyperedge_list": (lambda N: xgi.to_hyperedge_list(N), ("hg", "sc")),
    "to_hyperedge_dict": (lambda N: xgi.to_hyperedge_dict(N), ("hg", "sc")),
    "to_bipartite_edgelist": (lambda N: sorted(map(repr, xgi.to_bipartite_edgelist(N))), ("hg", "sc", "dhg")),
    "to_incidence_matrix": (lambda N: xgi.to_incidence_matrix(N, index=True), ("hg", "sc")),
    "to_incidence_matrix(sparse=False)": (lambda N: xgi.to_incidence_matrix(N, sparse=False), ("hg", "sc")),
    "to_bipartite_graph": (lambda N: xgi.to_bipartite_graph(N, index=True), ("hg", "sc", "dhg")),
    "to_bipartite_pandas_dataframe": (lambda N: xgi.to_bipartite_pandas_dataframe(N), ("hg", "sc")),
    "to_hypergraph_dict": (lambda N: xgi.to_hypergraph_dict(N), ("hg", "sc")),
    "to_hif_dict": (lambda N: xgi.to_hif_dict(N), ("hg", "sc", "dhg")),
    "to_hypergraph": (lambda N: xgi.to_hypergraph(N), ("hg", "sc", "dhg")),
    "to_simplicial_complex": (lambda N: xgi.to_simplicial_complex(N), ("hg", "sc", "dhg")),
    "to_dihypergraph": (lambda N: xgi.to_dihypergraph(N), ("dhg",)),
    "to_line_graph": (lambda N: xgi.to_line_graph(N), ("hg", "sc")),
    "to_graph": (lambda N: xgi.to_graph(N), ("hg", "sc")),
}


def call_to(name, N):
    with warnings.catch_warnings():
        warnings.simplefilter("ignore")
        try:
            return ("ok", canon_rep(TO_FNS[name][0](N)))
        except Exception as ex:  # noqa
            return ("err:" + type(ex).__name__, None)      # (the message may name operands in set-iteration order)


def held_case(case):
    """[(site, failure_class, detail)] for one held-object sequence: every to_* on N; edit N; every to_* again on the
    same object (the second call meets another function's earlier call too: all functions were called before the
    edit) must equal the answer for a freshly built network with the edited structure"""
    N = build(case["net"])
    names = [n for n, (_, ks) in TO_FNS.items() if case["net"]["cls"] in ks]
    if any(sum(len(p) for p in e[1:]) > 8 for e in case["net"]["edges"]):
        names = [n for n in names if n != "to_simplicial_complex"]      # the closure of a large edge is out of reach
    for n in names:
        call_to(n, N)
    try:
        apply_edit(N, case["edit"])
    except Exception:  # noqa  (the edit itself is C01-C05's business)
        return None
    fresh = build(spec_of(N, case["net"].get("sub", False)))
    strict = lambda X: (sorted(map(repr, spec_of(X)["nodes"])), sorted(map(repr, spec_of(X)["edges"])))
    if strict(fresh) != strict(N):
        return None        # (compare only when the rebuilt network really is the same network, IDs included)
    out = []
    for n in names:
        again, ref = call_to(n, N), call_to(n, fresh)
        if again != ref:
            out.append((n, "stale-after-edit", f"{n}: the second call on the edited object gives {str(again)[:200]} but a freshly built equal network gives {str(ref)[:200]}"))
    return out


# ----------------------------------------------------------------------------- regime

def big_spec(rng, cls):
    """>= 70 nodes, >= 130 parallel edges, a label above 2**53, a node of degree > 64, an edge of > 64 members"""
    n = rng.randint(70, 90)
    labels = list(range(n))
    style = rng.randrange(3)
    if style == 1:
        labels = [f"n{i}" for i in range(n)]
    elif style == 2:
        labels = [2 ** 53 + 1 + 2 * i for i in range(n)]
    labels[rng.randrange(n)] = 2 ** 53 + 1 if style != 1 else "n-big"
    rng.shuffle(labels)
    edges = []
    a, b = labels[0], labels[1]
    k = 0

    def add(ms):
        nonlocal k
        ms = list(dict.fromkeys(ms))
        if cls == "dhg":
            cut = rng.randint(0, len(ms))
            edges.append([k, ms[:cut], ms[cut:]])
        else:
            edges.append([k, ms])
        k += 1

    for _ in range(rng.randint(130, 140)):
        add([a, b])                                  # parallel edges
    add(labels[: rng.randint(65, n)])                # one edge above 64 members
    for _ in range(rng.randint(20, 40)):
        add(rng.sample(labels, rng.randint(1, 5)))
    rng.shuffle(edges)
    for i, e in enumerate(edges):                    # edge IDs: positions, with one above 2**53
        e[0] = i if i != 3 else 2 ** 53 + 3
    return {"cls": cls, "sub": False, "nodes": [enc(x) for x in labels],
            "edges": [[enc(e[0])] + [[enc(x) for x in part] for part in e[1:]] for e in edges], "pool": "big", "epool": "big"}


# ----------------------------------------------------------------------------- the families, as lists of cases

def gen_cases(rng, n_labels=60, n_containers=40, n_classes=30, n_held=60, n_big=2):
    cases = []
    # fixed regression inputs (the reviewer's demos)
    v4 = {"cls": "hg", "sub": False, "pool": "tuple", "epool": "auto", "nodes": [enc(x) for x in [(0, 0), (0, 1), (1, 1)]],
          "edges": [[0, [enc((0, 0)), enc((0, 1))]], [1, [enc((0, 1)), enc((1, 1))]]]}
    for conv, variant in lib_variants("hg"):
        cases.append({"f": "wide", "family": "labels", "conv": conv, "variant": variant, "net": v4})
    for c in ("list", "tuple"):
        cases.append({"f": "wide", "family": "containers", "conv": "hyperedge_list", "variant": c, "net": v4})
    v15 = {"cls": "dhg", "sub": False, "pool": "int", "epool": "auto", "nodes": [1, 2, 3, 4], "edges": [[0, [1, 2], [3]], [1, [3], [4]]]}
    for c in ("dimembers_list", "dimembers_dict", "dimembers_pairs"):
        for via in ROUTES:
            cases.append({"f": "wide", "family": "directed", "conv": c, "variant": via, "net": v15})
    frame = {"cls": "hg", "sub": False, "pool": "int", "epool": "str", "nodes": [1, 2, 3, 4], "edges": [["a", [1, 2]], ["b", [2, 3]], ["c", [3, 4]]]}
    for v in FRAME_VARIANTS:
        cases.append({"f": "wide", "family": "containers", "conv": "dataframe", "variant": v, "net": frame})
    for i in range(n_labels):
        cls = rng.choice(["hg", "hg", "dhg", "sc"])
        spec = gen_spec(rng, cls, pool=list(POOLS)[i % len(POOLS)] if i < 2 * len(POOLS) else None)
        vs = lib_variants(cls)
        for conv, variant in (vs if i < len(POOLS) else rng.sample(vs, 8)):
            cases.append({"f": "wide", "family": "labels", "conv": conv, "variant": variant, "net": spec})
    cv = container_variants("hg")
    for i in range(n_containers):
        cls = rng.choice(["hg", "hg", "sc"])
        spec = gen_spec(rng, cls)
        for conv, variant in (cv if i < 3 else rng.sample(cv, 12)):
            cases.append({"f": "wide", "family": "containers", "conv": conv, "variant": variant, "net": spec})
    for i in range(n_classes):
        cls = ["hg", "dhg", "sc"][i % 3]
        spec = gen_spec(rng, cls, pool=rng.choice(["int", "str", "str-collide", "tuple"]), sub=True)
        for conv, variant in lib_variants(cls):
            cases.append({"f": "wide", "family": "classes", "conv": conv, "variant": variant, "net": spec})
    for i in range(n_held):
        cls = rng.choice(["hg", "hg", "dhg", "sc"])
        spec = gen_spec(rng, cls, pool=rng.choice(["int", "str", "str-collide", "tuple"]), epool=rng.choice(["auto", "str", "str-collide"]))
        N = build(spec)
        ed = edit(N, rng.choice(["same-id", "same-id", "swap-member", "add-edge", "remove-node", "remove-edge"]), rng)
        if ed is not None:
            cases.append({"f": "wide", "family": "held", "conv": "held", "variant": ed["op"], "net": spec, "edit": ed})
    for i in range(n_big):
        cls = ["hg", "dhg"][i % 2]
        spec = big_spec(rng, cls)
        for conv, variant in lib_variants(cls):
            if conv == "class" and variant.startswith("sc"):
                continue          # the closure of an edge with > 64 members is out of reach
            cases.append({"f": "wide", "family": "regime", "conv": conv, "variant": variant, "net": spec})
        cases.append({"f": "wide", "family": "held", "conv": "held", "variant": "same-id", "net": spec,
                      "edit": {"op": "same-id", "e": spec["edges"][0][0], "new": [[spec["nodes"][5]], [spec["nodes"][6]]] if cls == "dhg" else [[spec["nodes"][5], spec["nodes"][6]]]}})
    return cases


def run_one(case, rng):
    """[(site, failure_class, detail)] or None when the variant does not apply"""
    if case["conv"] == "held":
        return held_case(case)
    r = run_case(case, rng)
    if r is None:
        return None
    return [(site_of(case), k, d) for k, d in r]


def run_wide(ctx, cases, do_shrink=True):
    import random
    from .core import jhash
    for case in cases:
        rng = random.Random(jhash(case))        # the few random choices inside a conversion are a function of the case
        try:
            res = run_one(case, rng)
        except Exception as ex:  # noqa  (never a traceback on a mutant: an unexpected failure of the harness itself is a finding of its own kind)
            res = [("harness", "wide-case-raised", f"{type(ex).__name__}: {str(ex)[:200]}")]
        if res is None:
            ctx.stats["wide:skipped"] += 1
            continue
        ctx.evaluations += 1
        ctx.stats["wide:" + case["family"]] += 1
        ctx.stats["wide-pool:" + str(case["net"].get("pool"))] += 1
        if case["net"].get("sub"):
            ctx.stats["wide:subclass-source"] += 1
        if len(case["net"]["edges"]) >= 2:
            ctx.nontrivial.add(jhash(case))
        seen = set()
        for site, cls, detail in res:
            if (site, cls) in seen:
                continue
            seen.add((site, cls))
            small = case
            if do_shrink and case["conv"] != "held" and len(case["net"]["nodes"]) <= 12 and site != "harness":
                known_before = any(v["site"] == site and v["failure_class"] == cls for v in ctx.violations)
                if not known_before:
                    small = shrink(case, cls, random.Random(1))
                    r2 = run_one(small, random.Random(jhash(small))) or []
                    detail = next((d for s, k, d in r2 if k == cls), detail)
            ctx.violation(site, cls, small, detail=detail)
