"""C07 — input families outside the JSON op alphabet of harness/props/c07.py (second hardening round).

A *family case* is a small JSON recipe; labels, IDs and attribute values are produced from it by NAME, so that objects
JSON cannot carry (tuples, frozensets, bytes, dates, enum members, complex numbers, integers above 2**53, numpy
arrays, deques, bytearrays, instances) are replayable:

  {"family": …, "class": "Hypergraph"|"DiHypergraph"|"SimplicialComplex", "sub": bool (a trivial subclass),
   "npool": pool of node labels, "epool": pool of explicit edge IDs, "n": number of nodes,
   "edges": [{"m": [node indices] | "t": […], "h": […], "id": index into epool | null (automatic), "a": {key: value name}}],
   "nattr": [[node index, key, value name]], "net": {key: value name}, "frozen": bool,
   "route": "copy"|"pickle"|"ctor", "script": "basic"|"twice", "edits": [op, …]}

`evaluate(case)` runs it on the real implementation and returns [(site, failure class, detail)] — the same clauses
(a)–(d) as props/c07.py, read through a snapshot that does not depend on the ID / value type:

  basic : clone once; (a) same class, same network, not frozen, source unchanged by cloning; (b) no shared mutable
          container (full depth through copy(), container level otherwise); (c) the edits of `edits` on either side
          (structural, top-level attribute writes, nested in-place pokes through copy()) leave the other side unchanged;
          (d) automatic-ID additions on both sides keep every edge and create one new ID.
  twice : STATE ACROSS CALLS — clone the SAME source several times with edits in between: C1 = route(S); edit C1 (nested
          pokes, writes, structure); C2 = route(S) and C2' = other_route(S) must still equal S; a COUNT-PRESERVING edit of S
          (one edge removed, a different one added: same numbers of nodes and edges), C3 = route(S) must equal S as it is
          now and equal the clone of a FRESH rebuild that received the same edits; an ordinary edit of S, C4 likewise;
          no two of S, C1 … C4 share a mutable container.
"""
import collections
import copy as pycopy
import datetime
import enum
import itertools
import json
import pickle
import warnings

import numpy as np
import xgi


class MyH(xgi.Hypergraph):
    pass


class MyD(xgi.DiHypergraph):
    pass


class MyS(xgi.SimplicialComplex):
    pass


class Box:
    """an instance as attribute value (mutable through its field)"""

    def __init__(self, x):
        self.x = x

    def __repr__(self):
        return f"Box({self.x!r})"


Tag = enum.Enum("Tag", [(f"m{i}", i) for i in range(400)], module=__name__)

BASE = {"Hypergraph": xgi.Hypergraph, "DiHypergraph": xgi.DiHypergraph, "SimplicialComplex": xgi.SimplicialComplex}
SUB = {"Hypergraph": MyH, "DiHypergraph": MyD, "SimplicialComplex": MyS}
ROUTES = {
    "copy": lambda H: H.copy(),
    "pickle": lambda H: pickle.loads(pickle.dumps(H)),
    "ctor": lambda H: type(H)(H),
}

POOLS = {
    "int": lambda i: i,
    "int1": lambda i: i + 1,
    "str": lambda i: f"n{i}",
    "tuple": lambda i: (i // 3, i % 3),
    "tuple-nested": lambda i: ("t", (i, i + 1)),
    "big": lambda i: 2 ** 53 + 1 + 2 * i,                         # integers no float can tell apart from a neighbour
    "mostly-int-some-big": lambda i: i if i % 7 else 2 ** 53 + 1 + i,
    "negbig": lambda i: -(2 ** 70) - i,
    "huge": lambda i: 10 ** 309 + i,                              # float(idx) overflows
    "frozenset": lambda i: frozenset({i, i + 1000}),
    "bytes": lambda i: b"b%d" % i,
    "bytes-digits": lambda i: b"%d" % (i + 3),                     # float(b"5") == 5.0: readable by float(), not comparable with int
    "date": lambda i: datetime.date(2024, 1, 1) + datetime.timedelta(days=i),
    "complex": lambda i: complex(i, 1),
    "enum": lambda i: Tag(i + 1),
    "float": lambda i: i + 0.5,
    "npint": lambda i: np.int64(i),
    "mixed": lambda i: [i, f"s{i}", (i, "t"), 2 ** 53 + i, frozenset({i}), b"x%d" % i][i % 6],
}
# IDs that `float()` cannot read / that are iterable: what the format sniffers and update_uid_counter trip over
EXOTIC_EDGE_POOLS = ["tuple", "tuple-nested", "frozenset", "bytes", "bytes-digits", "date", "complex", "enum", "huge", "big", "negbig", "float",
                     "npint", "mixed"]
NODE_POOLS = ["int", "str", "tuple", "tuple-nested", "big", "mostly-int-some-big", "frozenset", "bytes", "date", "enum", "float",
              "npint", "mixed"]

VALS = {
    "int": lambda: 1,
    "big": lambda: 2 ** 60 + 1,
    "str": lambda: "v",
    "list": lambda: [1, [2]],
    "dict": lambda: {"k": [1], "d": {"e": [5]}},
    "set": lambda: {1, 2},
    "tuple-list": lambda: ([0, 1], "fixed"),
    "tuple-dict-tuple-list": lambda: ({"xy": ([2, 3], 4)}, 4),
    "ndarray": lambda: np.array([0.0, 1.0]),
    "ndarray2": lambda: np.arange(6).reshape(2, 3),
    "deque": lambda: collections.deque([1]),
    "bytearray": lambda: bytearray(b"ab"),
    "obj": lambda: Box([1]),
    "defaultdict": lambda: collections.defaultdict(list, {"a": [1]}),
    "list-of-ndarray": lambda: [np.array([1, 2]), {"p": np.zeros(2)}],
}
MUTABLE_VALS = [k for k in VALS if k not in ("int", "big", "str")]
KEYS = ["w", "pos", "tags", "hist", "m"]


# ----------------------------------------------------------------------------- canonical forms

def xid(x):
    if isinstance(x, frozenset):                       # repr of a set depends on its history (pickle rebuilds it)
        return "frozenset:{" + ", ".join(sorted(xid(y) for y in x)) + "}"
    if isinstance(x, tuple):
        return "tuple:(" + ", ".join(xid(y) for y in x) + ")"
    return f"{type(x).__name__}:{x!r}"


def cv(v):
    """canonical JSON-able form of an attribute value (type-tagged, so that a list turned tuple or an int64 turned int shows)"""
    if isinstance(v, np.ndarray):
        return ["nd", str(v.dtype), list(v.shape), v.tolist()]
    if isinstance(v, collections.deque):
        return ["deque", [cv(x) for x in v]]
    if isinstance(v, (bytes, bytearray)):
        return [type(v).__name__, bytes(v).hex()]
    if isinstance(v, dict):
        return [type(v).__name__, [[xid(k), cv(x)] for k, x in v.items()]]
    if isinstance(v, (list, tuple)):
        return [type(v).__name__, [cv(x) for x in v]]
    if isinstance(v, (set, frozenset)):
        return [type(v).__name__, sorted(json.dumps(cv(x), sort_keys=True, default=repr) for x in v)]
    if isinstance(v, Box):
        return ["Box", cv(v.x)]
    return xid(v)


def next_uid(H):
    try:
        return next(pycopy.copy(H._edge_uid))
    except Exception:  # noqa
        return "$err"


def xsnap(H, cls):
    nodes, edges = list(H.nodes), list(H.edges)
    s = {"nodes": [xid(n) for n in nodes], "edges": [xid(e) for e in edges]}
    S = lambda it: sorted(xid(x) for x in it)
    mem, memb, nattr, eattr = [], [], [], []
    for e in edges:
        try:
            if cls == "DiHypergraph":
                t, h = H.edges.dimembers(e)
                mem.append([xid(e), [S(t), S(h)]])
            else:
                mem.append([xid(e), S(H.edges.members(e))])
        except Exception as ex:  # noqa
            mem.append([xid(e), "$err:" + type(ex).__name__])
        try:
            eattr.append([xid(e), cv(H.edges[e])])
        except Exception:  # noqa
            eattr.append([xid(e), "$missing"])
    for n in nodes:
        try:
            if cls == "DiHypergraph":
                i, o = H.nodes.dimemberships(n)
                memb.append([xid(n), [S(i), S(o)]])
            else:
                memb.append([xid(n), S(H.nodes.memberships(n))])
        except Exception as ex:  # noqa
            memb.append([xid(n), "$err:" + type(ex).__name__])
        try:
            nattr.append([xid(n), cv(H.nodes[n])])
        except Exception:  # noqa
            nattr.append([xid(n), "$missing"])
    s.update(mem=mem, memb=memb, nattr=nattr, eattr=eattr, net=cv(getattr(H, "_net_attr", {})), uid=next_uid(H),
             frozen=bool(H.is_frozen), type=type(H).__name__)
    return s


EQ_FIELDS = ["nodes", "edges", "mem", "memb", "nattr", "eattr", "net"]


def consistent(s, cls):
    """two-way incidence + one attribute record per ID on the SOURCE (defects of C01–C03 are not charged to C07)"""
    flat = (lambda v: v[0] + v[1]) if cls == "DiHypergraph" else (lambda v: v)
    if any(a == "$missing" for _, a in s["nattr"] + s["eattr"]):
        return False
    mem, memb = dict((k, v) for k, v in s["mem"]), dict((k, v) for k, v in s["memb"])
    if len(mem) != len(s["mem"]) or len(memb) != len(s["memb"]):
        return False
    for e, ms in s["mem"]:
        if not isinstance(ms, list) or any(n not in memb or not isinstance(memb[n], list) or e not in flat(memb[n]) for n in flat(ms)):
            return False
    for n, es in s["memb"]:
        if not isinstance(es, list) or any(e not in mem or not isinstance(mem[e], list) or n not in flat(mem[e]) for e in flat(es)):
            return False
    return True


def sc_closed(S):
    sets = {frozenset(S.edges.members(e)) for e in S.edges}
    if len(sets) != len(S.edges) or frozenset() in sets:
        return False
    for f in sets:
        if len(f) > 6:
            continue
        for r in range(2, len(f)):
            for sub in itertools.combinations(f, r):
                if frozenset(sub) not in sets:
                    return False
    return True


# ----------------------------------------------------------------------------- building and editing

def _quiet(f, *a, **k):
    with warnings.catch_warnings():
        warnings.simplefilter("ignore")
        try:
            f(*a, **k)
            return None
        except Exception as ex:  # noqa
            return ex


def node_label(case, i):
    return POOLS[case["npool"]](i)


def edge_id(case, k):
    return POOLS[case["epool"]](k)


def add_edge(case, H, e):
    cls = case["class"]
    kw = {} if e.get("id") is None else {"idx": edge_id(case, e["id"])}
    attr = {k: VALS[v]() for k, v in e.get("a", {}).items()}
    if cls == "DiHypergraph":
        return _quiet(H.add_edge, ([node_label(case, i) for i in e.get("t", [])], [node_label(case, i) for i in e.get("h", [])]), **kw, **attr)
    ms = [node_label(case, i) for i in e.get("m", [])]
    if cls == "SimplicialComplex":
        return _quiet(H.add_simplex, ms, **kw, **attr)
    return _quiet(H.add_edge, ms, **kw, **attr)


def build(case):
    cls = case["class"]
    H = (SUB if case.get("sub") else BASE)[cls]()
    _quiet(H.add_nodes_from, [node_label(case, i) for i in range(case["n"])])
    for e in case["edges"]:
        add_edge(case, H, e)
    for i, k, v in case.get("nattr", []):
        _quiet(H.set_node_attributes, {node_label(case, i): {k: VALS[v]()}})
    for k, v in case.get("net", {}).items():
        H[k] = VALS[v]()
    return H


def _first_mutable(v, depth=0):
    """the first mutable object at or below v (looking through tuples), `depth` levels further down when possible"""
    while isinstance(v, tuple):
        inner = next((x for x in v if isinstance(x, (list, dict, set, tuple, np.ndarray, collections.deque, bytearray, Box))), None)
        if inner is None:
            return None
        v = inner
    for _ in range(depth):
        kids = list(v.values()) if isinstance(v, dict) else (list(v) if isinstance(v, (list, collections.deque)) else ([v.x] if isinstance(v, Box) else []))
        nxt = next((x for x in kids if isinstance(x, (list, dict, set, tuple, np.ndarray, collections.deque, bytearray, Box))), None)
        if nxt is None:
            break
        w = _first_mutable(nxt)
        if w is None:
            break
        v = w
    return v


def poke_value(v, depth=0):
    """change a (nested) attribute value in place; -> True when something was changed"""
    v = _first_mutable(v, depth)
    if isinstance(v, np.ndarray):
        if v.size:
            v.flat[0] = 42
            return True
        return False
    if isinstance(v, (list, collections.deque)):
        v.append(99)
    elif isinstance(v, dict):
        v["poked"] = [99]
    elif isinstance(v, set):
        v.add(99)
    elif isinstance(v, bytearray):
        v.extend(b"!")
    elif isinstance(v, Box):
        v.x = [v.x, "poked"]
    else:
        return False
    return True


def apply_edit(case, H, ed, nested_ok):
    """one edit on one side; exceptions of the library are part of the behaviour (the OTHER side must not change either way)"""
    cls = case["class"]
    op = ed["op"]
    nodes, edges = list(H.nodes), list(H.edges)
    if op == "add_edge":
        return add_edge(case, H, ed["e"])
    if op == "add_node":
        return _quiet(H.add_node, node_label(case, ed["i"]), **{k: VALS[v]() for k, v in ed.get("a", {}).items()})
    if op == "remove_edge" and edges:
        e = edges[ed["k"] % len(edges)]
        return _quiet(H.remove_simplex_id if cls == "SimplicialComplex" else H.remove_edge, e)
    if op == "remove_node" and nodes:
        return _quiet(H.remove_node, nodes[ed["k"] % len(nodes)])
    if op == "cpe":                                    # count-preserving: one edge out, a different one in (existing nodes only)
        if cls == "SimplicialComplex" or not edges or len(nodes) < 3 or H.is_frozen:
            return None
        e = edges[ed["k"] % len(edges)]
        old = set(H.edges.members(e))
        new = [nodes[(ed["k"] + j) % len(nodes)] for j in range(1 + (len(old) % 3))]
        if set(new) == old:
            new = new + [nodes[(ed["k"] + 5) % len(nodes)]]
        _quiet(H.remove_edge, e)
        if cls == "DiHypergraph":
            return _quiet(H.add_edge, (new[:1], new[1:]))
        return _quiet(H.add_edge, new)
    if op in ("assign", "poke", "delkey"):
        level = ed["level"]
        if level == "net":
            d = H._net_attr
        else:
            ids = nodes if level == "node" else edges
            if not ids:
                return None
            try:
                d = (H.nodes if level == "node" else H.edges)[ids[ed["k"] % len(ids)]]
            except Exception:  # noqa
                return None
        if op == "assign":
            if level == "net":
                H[ed["key"]] = VALS[ed["val"]]()
            else:
                d[ed["key"]] = VALS[ed["val"]]()
            return None
        if op == "delkey":
            if d and level != "net":
                d.pop(next(iter(d)))
            return None
        if nested_ok:
            for key in ([ed["key"]] if ed.get("key") in d else []) + list(d):
                if poke_value(d[key], ed.get("depth", 0)):
                    ed["done"] = True
                    break
        return None
    return None


def poke_everything(H):
    """through copy(): change EVERY nested mutable attribute value of H in place (node, edge and network level)"""
    n = 0
    for view in (H.nodes, H.edges):
        for i in list(view):
            try:
                d = view[i]
            except Exception:  # noqa
                continue
            for k in list(d):
                n += bool(poke_value(d[k], 0)) + bool(poke_value(d[k], 2))
    for k in list(H._net_attr):
        n += bool(poke_value(H._net_attr[k], 0)) + bool(poke_value(H._net_attr[k], 2))
    return n


def auto_add(cls, X, tag):
    ms = [f"zz-new-{tag}-1", f"zz-new-{tag}-2"]
    with warnings.catch_warnings():
        warnings.simplefilter("ignore")
        if cls == "DiHypergraph":
            X.add_edge(([ms[0]], [ms[1]]))
        elif cls == "SimplicialComplex":
            X.add_simplex(ms)
        else:
            X.add_edge(ms)


def check_fresh(cls, X, label, tag):
    if X.is_frozen:
        return None
    before = xsnap(X, cls)
    try:
        auto_add(cls, X, tag)
    except Exception as ex:  # noqa
        return f"{label}: adding an edge with an automatic id raised {type(ex).__name__}: {ex}"
    after = xsnap(X, cls)
    bm, ba = dict(map(tuple, ((k, json.dumps(v)) for k, v in before["mem"]))), dict((k, json.dumps(v)) for k, v in before["eattr"])
    am, aa = dict((k, json.dumps(v)) for k, v in after["mem"]), dict((k, json.dumps(v)) for k, v in after["eattr"])
    for e in before["edges"]:
        if e not in am:
            return f"{label}: existing edge {e} disappeared on an automatic-id addition"
        if am[e] != bm[e] or aa.get(e) != ba.get(e):
            return f"{label}: existing edge {e} overwritten by an automatic-id addition: {bm[e]} -> {am[e]}"
    new = [e for e in after["edges"] if e not in before["edges"]]
    if len(new) != 1 or len(after["edges"]) != len(before["edges"]) + 1:
        return f"{label}: automatic-id addition created {len(new)} new edge ids (next id {before['uid']!r})"
    return None


class Skip(Exception):
    pass


def site_of(case, route=None):
    cls = case["class"]
    return {"copy": f"{cls}.copy", "pickle": f"pickle({cls})", "ctor": f"{cls}(network)"}[route or case["route"]]


def counter_stale(H):
    u = next_uid(H)
    return isinstance(u, int) and any(isinstance(e, (int, np.integer)) and not isinstance(e, bool) and e >= u for e in H.edges)


def clone_clauses(case, H, route, fails, walkers, label="clone", src=None):
    """clone H by `route` and evaluate (a) + (b); -> the clone or None"""
    cls = case["class"]
    site = site_of(case, route)
    src0 = src if src is not None else xsnap(H, cls)
    with warnings.catch_warnings(record=True) as w:
        warnings.simplefilter("always")
        try:
            C = ROUTES[route](H)
        except Exception as ex:  # noqa
            fails.append((site, "clone-raises", f"{label}: {type(ex).__name__}: {ex}"))
            return None
    if any(issubclass(x.category, UserWarning) for x in w):
        fails.append((site, "clone-warns", label + ": " + "; ".join(str(x.message) for x in w)[:200]))
    src1 = xsnap(H, cls)
    if src1 != src0:
        fails.append((site, "source-changed-by-clone", f"{label}: {[k for k in src0 if src0[k] != src1[k]]}"))
    if type(C) is not type(H):
        fails.append((site, "clone-class", f"{label}: {type(C).__name__} from {type(H).__name__}"))
    cl = xsnap(C, cls)
    for f in EQ_FIELDS:
        if cl[f] != src0[f]:
            fails.append((site, "clone-differs-" + f, f"{label}: source {json.dumps(src0[f])[:160]} clone {json.dumps(cl[f])[:160]}"))
    if cl["frozen"]:
        fails.append((site, "clone-frozen", f"{label}: the clone is frozen"))
    walk, attr_dicts, describe = walkers
    full = route == "copy"
    la, lb = (frozenset(), frozenset()) if full else (attr_dicts(H), attr_dicts(C))
    cellsA, cellsB = walk(H, la), walk(C, lb)
    shared = set(cellsA) & set(cellsB)
    if shared:
        fails.append((site, "shares-mutable-container", f"{label}: " + describe(shared, cellsA)))
    return C


def evaluate(case, walkers):
    """-> (fails, info); raises Skip when the source breaks another property's invariant"""
    case = pycopy.deepcopy(case)
    cls, route = case["class"], case["route"]
    site = site_of(case)
    fails = []
    H = build(case)
    if case.get("frozen"):
        H.freeze()
    src0 = xsnap(H, cls)
    info = {"nodes": len(src0["nodes"]), "edges": len(src0["edges"]),
            "parallel": len(src0["edges"]) - len({json.dumps(m) for _, m in src0["mem"]})}
    if not consistent(src0, cls) or (cls == "SimplicialComplex" and not sc_closed(H)):
        raise Skip("source violates another property's invariant (incidence / closure)")
    if counter_stale(H):
        raise Skip("source counter is not above its integer IDs (C04's concern)")
    C = clone_clauses(case, H, route, fails, walkers, src=src0)
    if C is None:
        return fails, info
    sides = {"a": H, "b": C}

    def fresh(tags):
        for t in tags:
            sd = "ab"[t % 2]
            X, Y = sides[sd], sides["b" if sd == "a" else "a"]
            other = xsnap(Y, cls)
            msg = check_fresh(cls, X, "source" if sd == "a" else "clone", t)
            if msg:
                fails.append((site, "fresh-ids", msg))
                return
            if xsnap(Y, cls) != other:
                fails.append((site, "edit-visible-in-other-network", "automatic-id addition changed the other side"))
                return

    def edit(side, ed):
        X, Y = sides[side], sides["b" if side == "a" else "a"]
        before = xsnap(Y, cls)
        apply_edit(case, X, ed, nested_ok=(route == "copy"))
        after = xsnap(Y, cls)
        if before != after:
            fails.append((site, "edit-visible-in-other-network",
                          f"{ed['op']} on the {'source' if side == 'a' else 'clone'} changed {[k for k in before if before[k] != after[k]]} of the other side"))

    if case.get("script", "basic") == "basic":
        fresh((0, 1))
        for ed in case.get("edits", []):
            edit(ed.get("side", "b"), ed)
        if route == "copy":                            # every nested value, both directions
            for sd in ("b", "a"):
                X, Y = sides[sd], sides["b" if sd == "a" else "a"]
                before = xsnap(Y, cls)
                n = poke_everything(X)
                info["poked"] = info.get("poked", 0) + n
                if n and xsnap(Y, cls) != before:
                    fails.append((site, "edit-visible-in-other-network",
                                  f"in-place change of every nested attribute value of the {'source' if sd == 'a' else 'clone'} shows in the other side"))
        fresh((2, 3))
        return fails, info

    # ---- script "twice": the same source cloned again and again, with edits in between
    other_route = {"copy": "pickle", "pickle": "ctor", "ctor": "copy"}[route]
    clones = [C]
    for ed in case.get("edits", []):                   # edits of the FIRST clone
        edit("b", ed)
    if route == "copy":
        before = xsnap(H, cls)
        poke_everything(C)
        if xsnap(H, cls) != before:
            fails.append((site, "edit-visible-in-other-network", "in-place change of every nested attribute value of the first clone shows in the source"))
    for r, lab in ((route, "second clone of the same source (after edits of the first clone)"),
                   (other_route, f"clone by {other_route} of the same source (after a {route} clone and edits of it)")):
        X = clone_clauses(case, H, r, fails, walkers, label=lab)
        if X is not None:
            clones.append(X)
    if not H.is_frozen:
        # a fresh rebuild that receives the same edits of the source: what a clone of the edited source must show
        F = build(case)
        for k, ed in enumerate([{"op": "cpe", "k": 1}, {"op": "assign", "level": "node", "k": 0, "key": "w", "val": "list"},
                                {"op": "add_edge", "e": {"m": [0, case["n"] + 3], "t": [0], "h": [case["n"] + 3], "id": None}},
                                {"op": "poke", "level": "node", "k": 0, "key": "w"}]):
            apply_edit(case, H, pycopy.deepcopy(ed), nested_ok=True)
            apply_edit(case, F, pycopy.deepcopy(ed), nested_ok=True)
            if k % 2 == 0:
                continue                               # clone after the 2nd and the 4th edit
            cur = xsnap(H, cls)
            lab = f"clone after {'a count-preserving edit and an attribute write' if k == 1 else 'an added edge and a nested in-place change'} of the source"
            X = clone_clauses(case, H, route, fails, walkers, label=lab, src=cur)
            if X is None:
                continue
            clones.append(X)
            try:
                ref = xsnap(ROUTES[route](F), cls)
                got = xsnap(X, cls)
                bad = [f for f in EQ_FIELDS if got[f] != ref[f]]
                if bad:
                    fails.append((site, "clone-differs-from-fresh-computation",
                                  f"{lab}: differs in {bad} from the clone of a freshly built network that received the same edits"))
            except Exception:  # noqa
                pass
    walk, attr_dicts, describe = walkers
    cells = []
    for X in clones:
        leaves = frozenset() if route == "copy" else attr_dicts(X)
        cells.append(walk(X, leaves))
    for i in range(len(cells)):
        for j in range(i + 1, len(cells)):
            sh = set(cells[i]) & set(cells[j])
            if sh and route == "copy":
                fails.append((site, "shares-mutable-container", f"clones {i} and {j} of one source share: " + describe(sh, cells[i])))
    sides["b"] = clones[-1]
    fresh((0, 1))
    return fails, info


# ----------------------------------------------------------------------------- generation

def _edge(rng, cls, n, lo=0, hi=4, idmax=None):
    ms = [rng.randrange(n) for _ in range(rng.randint(max(lo, 1 if cls == "SimplicialComplex" else lo), hi))]
    e = {"id": (rng.randrange(idmax) if idmax and rng.random() < 0.6 else None)}
    if cls == "DiHypergraph":
        k = rng.randint(0, len(ms))
        e["t"], e["h"] = ms[:k], ms[k:]
    else:
        e["m"] = ms
    if rng.random() < 0.4:
        e["a"] = {rng.choice(KEYS): rng.choice(list(VALS))}
    return e


def _edits(rng, n, k):
    out = []
    for _ in range(k):
        r = rng.random()
        if r < 0.25:
            ed = {"op": "poke", "level": rng.choice(["node", "edge", "net"]), "k": rng.randrange(50), "key": rng.choice(KEYS), "depth": rng.randint(0, 2)}
        elif r < 0.4:
            ed = {"op": "assign", "level": rng.choice(["node", "edge", "net"]), "k": rng.randrange(50), "key": rng.choice(KEYS), "val": rng.choice(list(VALS))}
        elif r < 0.45:
            ed = {"op": "delkey", "level": rng.choice(["node", "edge"]), "k": rng.randrange(50)}
        elif r < 0.6:
            ed = {"op": "add_edge", "e": {"m": [rng.randrange(n + 2), rng.randrange(n + 2)], "t": [rng.randrange(n + 2)], "h": [rng.randrange(n + 2)],
                                          "id": rng.choice([None, None, rng.randrange(8)])}}
        elif r < 0.7:
            ed = {"op": "add_node", "i": rng.randrange(n + 3), "a": {rng.choice(KEYS): rng.choice(list(VALS))}}
        elif r < 0.8:
            ed = {"op": "remove_edge", "k": rng.randrange(50)}
        elif r < 0.9:
            ed = {"op": "remove_node", "k": rng.randrange(50)}
        else:
            ed = {"op": "cpe", "k": rng.randrange(50)}
        ed["side"] = rng.choice(["a", "b"])
        out.append(ed)
    return out


def gen_small(rng, cls, family):
    """a small network with labels / IDs / values from the named pools"""
    n = rng.randint(2, 6)
    npool = rng.choice(NODE_POOLS if family != "values" else ["int", "str"])
    epool = rng.choice(EXOTIC_EDGE_POOLS if family == "labels" else ["int1", "str", "tuple", "big"])
    case = {"family": family, "class": cls, "sub": family == "classes" and rng.random() < 0.7, "npool": npool, "epool": epool, "n": n,
            "edges": [_edge(rng, cls, n, idmax=6) for _ in range(rng.randint(1, 5))],
            "nattr": [[rng.randrange(n), rng.choice(KEYS), rng.choice(MUTABLE_VALS if family == "values" else list(VALS))]
                      for _ in range(rng.randint(0, 3) + (2 if family == "values" else 0))],
            "net": ({rng.choice(KEYS): rng.choice(MUTABLE_VALS)} if rng.random() < 0.6 else {}),
            "frozen": rng.random() < (0.5 if family == "classes" else 0.1)}
    if family == "values":
        for e in case["edges"]:
            e["a"] = {rng.choice(KEYS): rng.choice(MUTABLE_VALS)}
    return case


def gen_large(rng, cls):
    """REGIME: >= 70 IDs, >= 130 parallel edges (one member set stored under 130+ IDs; for a simplicial complex, which keeps
    one ID per member set, >= 130 distinct simplices), integer labels and explicit IDs above 2**53"""
    n = rng.randint(70, 90)
    case = {"family": "regime", "class": cls, "sub": False, "npool": rng.choice(["mostly-int-some-big", "big", "int", "mixed"]),
            "epool": rng.choice(["big", "int1", "mostly-int-some-big"]), "n": n, "edges": [], "nattr": [], "net": {"name": "list"}, "frozen": False}
    if cls == "SimplicialComplex":
        for i in range(0, n - 2):
            case["edges"].append({"m": [i, i + 1, i + 2], "id": (200 + i if i % 5 == 0 else None)})
    else:
        base = [rng.randrange(n) for _ in range(3)]
        par = rng.randint(130, 150)
        for k in range(par):
            e = {"id": (k if k % 4 == 0 else None)}
            if cls == "DiHypergraph":
                e["t"], e["h"] = base[:1], base[1:]
            else:
                e["m"] = list(base)
            case["edges"].append(e)
        for _ in range(rng.randint(10, 30)):
            case["edges"].append(_edge(rng, cls, n, lo=1, hi=5))
    for _ in range(6):
        case["nattr"].append([rng.randrange(n), rng.choice(KEYS), rng.choice(MUTABLE_VALS)])
    case["edges"][0]["a"] = {"w": "list"}
    return case


def gen_cases(rng, quick=True):
    """the families of one run: [(case)]"""
    out = []
    classes = list(BASE)
    # regime: one large network per class and route
    for cls in classes:
        base = gen_large(rng, cls)
        for route in ROUTES:
            out.append(dict(pycopy.deepcopy(base), route=route, script="basic", edits=_edits(rng, base["n"], 4)))
        out.append(dict(pycopy.deepcopy(base), route=rng.choice(list(ROUTES)), script="twice", edits=_edits(rng, base["n"], 3)))
    reps = 1 if quick else 12
    for _ in range(reps):
        for cls in classes:
            # labels: every exotic edge-ID pool and every node pool at least once per class and run
            for epool in EXOTIC_EDGE_POOLS:
                c = gen_small(rng, cls, "labels")
                c["epool"] = epool
                for e in c["edges"][:2]:
                    e["id"] = rng.randrange(6)
                route = rng.choice(list(ROUTES))
                out.append(dict(c, route=route, script="basic", edits=_edits(rng, c["n"], rng.randint(1, 4))))
                out.append(dict(pycopy.deepcopy(c), route={"copy": "ctor", "ctor": "pickle", "pickle": "copy"}[route], script="basic", edits=[]))
            for npool in NODE_POOLS:
                c = gen_small(rng, cls, "labels")
                c["npool"] = npool
                out.append(dict(c, route=rng.choice(list(ROUTES)), script="basic", edits=_edits(rng, c["n"], rng.randint(1, 4))))
            # values: containers of every kind as attribute values, cloned by each route; held-object script on top
            for _k in range(4):
                c = gen_small(rng, cls, "values")
                for route in ROUTES:
                    out.append(dict(pycopy.deepcopy(c), route=route, script="basic", edits=_edits(rng, c["n"], rng.randint(1, 4))))
            for val in MUTABLE_VALS:
                c = gen_small(rng, cls, "values")
                c["nattr"].append([0, "pos", val])
                c["edges"][0]["a"] = {"hist": val}
                c["net"] = {"tags": val}
                out.append(dict(c, route="copy", script="basic", edits=[]))
            # classes: trivial subclasses and frozen sources
            for route in ROUTES:
                for frozen in (False, True):
                    c = gen_small(rng, cls, "classes")
                    c["frozen"] = frozen
                    c["sub"] = rng.random() < 0.7 or not frozen
                    out.append(dict(c, route=route, script="basic", edits=_edits(rng, c["n"], 2)))
            # state across calls
            for route in ROUTES:
                for fam in ("values", "labels"):
                    c = gen_small(rng, cls, fam)
                    c["family"] = "twice"
                    c["frozen"] = False
                    out.append(dict(c, route=route, script="twice", edits=_edits(rng, c["n"], rng.randint(1, 4))))
    return out


def shrink(case, slug, walkers, budget=60):
    """drop edges / node attributes / edits while the failure class persists"""
    def bad(c):
        try:
            return any(f[1] == slug for f in evaluate(c, walkers)[0])
        except Exception:  # noqa
            return False
    c = pycopy.deepcopy(case)
    if c["n"] > 20:
        budget = min(budget, 12)
    for key in ("edits", "nattr", "edges"):
        i = 0
        if c.get(key) and bad(dict(c, **{key: []})) and key != "edges":
            c[key] = []
            continue
        step = max(1, len(c.get(key, [])) // 2)
        while step >= 1 and budget > 0:
            i = 0
            while i < len(c.get(key, [])) and budget > 0:
                if key == "edges" and len(c[key]) <= 1:
                    break
                trial = dict(c, **{key: c[key][:i] + c[key][i + step:]})
                budget -= 1
                if bad(trial):
                    c = trial
                else:
                    i += step
            step //= 2
    if c.get("net") and budget > 0 and bad(dict(c, net={})):
        c["net"] = {}
    return c
