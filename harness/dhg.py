"""Directed DiHypergraph: op-history generator, executor on the real implementation, canonical snapshot.

Directed twin of hg.py with the same module interface (NAME, factory, gen_history, apply_impl, snapshot,
to_request, nontrivial), so `sm.run_sm` / `sm.targeted_search` work unchanged.  Ops are JSON request dicts of
the line protocol of lean/XgiModel/C02/Drive.lean (driver `DHG`).

The network under test lives in a `Box`: `copy` and `cleanup(in_place=False)` return a *new* DiHypergraph and
the history continues on the returned object (box.H is replaced), exactly as the model's `copy` / `cleanup`
ops are defined.  The same holds for the two other clone routes, `pickle` (pickle round trip) and `construct`
(`DiHypergraph(DH, **attr)`), which are generated only when the caller's `weights` name them.

Naming (checked against the code): `DH.edges.dimembers(e) = (tail, head) = (_edge[e]["in"], _edge[e]["out"])`,
`DH.nodes.dimemberships(n) = (in, out) = (_node[n]["in"], _node[n]["out"])` with in = edges whose HEAD holds n,
out = edges whose TAIL holds n.  `add_node_to_edge(e, n, "in")` adds to the tail, `"out"` to the head.
"""
import copy
import os
import signal
import threading
import warnings

import xgi
from xgi.exception import IDNotFound, XGIError

from .core import dec_id as _core_dec_id, enc_attrs, enc_attrs_req, enc_id, enc_val_req, idkey

# ----------------------------------------------------------------------------- IDs outside the model's domain
# Edge IDs are documented as "hashable".  The models know int | str | tuple | None.  The other kinds an ID counter has to
# cope with travel through the JSON ops as marked strings "$x:<kind>:<text>" (never a label of the universes below):
#   uuid.UUID (float() raises TypeError), a Python int too large for a float (OverflowError), bytes, floats that are /
#   are not integers (1.0 == 1 as a dict key and must move the automatic-ID counter, 2.5 must not), numpy integers.
# An op that carries one of them is sent to the model as {"op": "outside-model"} (answer: unmodelled — the model tie of
# that history ends there, the predicates go on), except numpy integers, which the model reads as the int they equal.
XBIG = 10 ** 309


def _xids():
    import uuid
    import numpy as np
    return [uuid.UUID(int=5), XBIG, 1.0, 2.0, 2.5, np.int64(1), np.int32(3), np.int64(7), b"x", 4.0]


XIDS = _xids()


def xenc(x):
    """Python ID -> JSON form of an op argument (keeps the kind of an exotic ID)"""
    import uuid
    import numpy as np
    if isinstance(x, np.integer):
        return f"$x:np:{int(x)}"
    if isinstance(x, bool):
        raise ValueError(f"ID outside every generated domain: {x!r}")
    if isinstance(x, float):
        return f"$x:float:{x!r}"
    if isinstance(x, uuid.UUID):
        return f"$x:uuid:{x.int}"
    if isinstance(x, bytes):
        return "$x:bytes:" + x.decode("latin1")
    if isinstance(x, int) and abs(x) >= 10 ** 300:
        return f"$x:big:{x - XBIG}"
    if isinstance(x, tuple):
        return [xenc(y) for y in x]
    return enc_id(x)


def xdec(j):
    """inverse of xenc (and of core.enc_id on the model's domain)"""
    if isinstance(j, list):
        return tuple(xdec(x) for x in j)
    if isinstance(j, str) and j.startswith("$x:"):
        import uuid
        import numpy as np
        _, kind, text = j.split(":", 2)
        if kind == "np":
            return np.int64(int(text))
        if kind == "float":
            return float(text)
        if kind == "uuid":
            return uuid.UUID(int=int(text))
        if kind == "bytes":
            return text.encode("latin1")
        if kind == "big":
            return XBIG + int(text)
    return j


dec_id = xdec


def is_exotic(j):
    if isinstance(j, str):
        return j.startswith("$x:")
    if isinstance(j, list):
        return any(is_exotic(x) for x in j)
    if isinstance(j, dict):
        return any(is_exotic(v) for k, v in j.items() if k not in ("attr", "hint", "norder", "orders"))
    return False


def model_request(r):
    """the request the model gets for an op: numpy-integer IDs as the ints they equal; any other exotic ID makes the
    whole call a call outside the model"""
    def conv(j):
        if isinstance(j, str) and j.startswith("$x:np:"):
            return int(j[6:])
        if isinstance(j, list):
            return [conv(x) for x in j]
        if isinstance(j, dict):
            return {k: conv(v) for k, v in j.items()}
        return j
    r = conv(r)
    return {"op": "outside-model"} if is_exotic(r) else r


def xsafe(x):
    """ID as observed in a snapshot: numpy integers as the ints they equal (one dict key), other exotic IDs in their marked
    form, "$bad:<type>" for an object that was never given as an ID (what a wrong edit of the library may store)"""
    import numpy as np
    try:
        if isinstance(x, np.integer):
            return int(x)
        return xenc(x)
    except (ValueError, TypeError):
        return "$bad:" + type(x).__name__


# ----------------------------------------------------------------------------- generation

NODE_UNIVERSES = [
    [0, 1, 2, 3, 4],
    [1, 2, 3, 4, 5, 6],
    ["a", "b", "c", "d"],
    [0, 1, 2, "a", "b", "10"],
    [-1, 0, 7, 3, 12],
    [0, 1, 2],
]
EDGE_UNIVERSES = [
    [0, 1, 2, 3, 4, 5],
    [0, 1, 2],
    ["e0", "e1", "x", "y"],
    [0, 1, 5, "e", "10", -2],
    [3, 2, 1, 0, 8],
]
ATTR_KEYS = ["w", "color", "label", "weight", "m"]
ATTR_VALS = [0, 1, 2, "r", "g", None, [1, 2], {"k": [1]}]
DIRECTIONS = ["in", "out"]
# documented defaults of the keyword parameters (docstrings of xgi/core/dihypergraph.py).  A generated call leaves
# some of them out (op["omit"] names them; the op then carries the documented default as the value, which is what
# the model is asked to perform): a default that drifts from the documentation is a wrong effect of the plain call.
DEFAULTS = {
    "remove_node": {"strong": False, "remove_empty": True},
    "remove_nodes_from": {"strong": False, "remove_empty": True},
    "remove_node_from_edge": {"remove_empty": True},
    "clear": {"remove_net_attr": True},
    "cleanup": {"isolates": False, "relabel": True, "in_place": True},
}


def _dkey(j):
    """the dict key an encoded ID stands for (np.int64(7) == 7.0 == 7 are one key)"""
    if isinstance(j, str) and j.startswith("$x:np:"):
        return repr(int(j[6:]))
    if isinstance(j, str) and j.startswith("$x:float:") and float(j[9:]).is_integer():
        return repr(int(float(j[9:])))
    return repr(j)


class Gen:
    OPS = {
        "add_node": 5, "add_nodes_from": 4, "remove_node": 10, "remove_nodes_from": 6, "add_edge": 16,
        "add_edges_from": 14, "add_node_to_edge": 10, "remove_edge": 6, "remove_edges_from": 4,
        "remove_node_from_edge": 9, "set_node_attributes": 2, "set_edge_attributes": 2, "set_net_attr": 1,
        "clear": 1, "copy": 2, "cleanup": 3, "relabel": 2, "freeze": 1,
    }

    def __init__(self, rng, weights=None, malformed=0.04, frozen_links=True):
        self.rng = rng
        self.nodes = rng.choice(NODE_UNIVERSES)
        self.eids = rng.choice(EDGE_UNIVERSES)
        self.malformed = malformed
        self.weights = dict(weights or {})
        # opt-in input families (share of the histories that use them; default 0 so that the other checks driving this state
        # machine keep their inputs): "$exotic" explicit edge IDs outside int/str (XIDS), "$alias" the SAME list / set object
        # handed over as tail and head and in several items of one bunch (every bulk format and add_edge), "$tuples" tuple node
        # labels, "$large" one history on >= 70 node labels with > 130 parallel edges and IDs above 2**53
        fam = {k: self.weights.pop(k, 0) for k in ("$exotic", "$alias", "$tuples", "$large")}
        self.exotic = rng.random() < fam["$exotic"]
        self.alias = rng.random() < fam["$alias"]
        if rng.random() < fam["$tuples"]:
            self.nodes = rng.choice([[(0, 0), (0, 1), (1, 1), (1, 0)], [(0, 0), (0, 1), "a", 2, ("a", 1)]])
        self.large = rng.random() < fam["$large"]
        if self.large:
            self.nodes = list(range(100, 172)) + [2 ** 53 + 2, 2 ** 53 + 4]
            self.eids = [2 ** 53 + 1, 2 ** 53 + 3, 0, 3, 500]
        # `freeze()` covers add_node_to_edge / remove_node_from_edge since /repo 85761ac (finding F12, property
        # C18) and the model lists them as guarded.  With frozen_links=False histories do not call these two on
        # a frozen network (for running against trees older than that fix).
        self.frozen_links = frozen_links
        self.is_frozen = False

    def node(self):
        if self.rng.random() < self.malformed:
            return None
        return self.rng.choice(self.nodes)

    def eid(self):
        if self.rng.random() < self.malformed:
            return None
        if self.exotic and self.rng.random() < 0.4:
            return self.rng.choice(XIDS)
        return self.rng.choice(self.eids)

    def side(self, lo=0, hi=3):
        return [self.node() for _ in range(self.rng.randint(lo, hi))]

    def members(self, first=False, bad=True):
        """{"tail": […], "head": […]} (duplicates, None, empty sides, nodes on both sides) or a malformed shape"""
        r = self.rng.random()
        if bad and r < 0.015:
            return {"bad": "short"}
        if bad and not first and r < 0.025:
            return {"bad": "not_seq"}
        tail, head = self.side(), self.side()
        if tail and self.rng.random() < 0.25:
            head.append(self.rng.choice(tail))          # a node in both tail and head
        m = {"tail": [enc_id(x) for x in tail], "head": [enc_id(x) for x in head], "as": self.rng.choice(["tuple", "list"])}
        if self.alias and self.rng.random() < 0.5:
            m["head"] = list(m["tail"])                  # tail and head are ONE object (see _members)
            m["alias"] = self.rng.choice(["list", "set"])
        return m

    def attrs(self, p=0.5):
        if self.rng.random() > p:
            return {}
        return {self.rng.choice(ATTR_KEYS): self.rng.choice(ATTR_VALS) for _ in range(self.rng.randint(1, 2))}

    def edge_item(self, fmt, first=False, bad=True):
        it = {"members": self.members(first=(first and fmt == 1), bad=bad)}
        if fmt in (2, 4, 5):
            it["idx"] = xenc(self.eid())
        if fmt in (3, 4):
            it["attr"] = enc_attrs_req(self.attrs(0.7))
        return it

    def edge_items(self, fmt, lo, hi, bad=True):
        items = [self.edge_item(fmt, first=(i == 0), bad=bad) for i in range(self.rng.randint(lo, hi))]
        if fmt == 5:  # dict keys are unique
            seen, out = set(), []
            for it in items:
                k = _dkey(it["idx"])
                if k not in seen:
                    seen.add(k); out.append(it)
            items = out
        return items

    def node_item(self):
        it = {"n": enc_id(self.node())}
        if self.rng.random() < 0.4:
            it["attr"] = enc_attrs_req(self.attrs(0.9))
        return it

    def attr_arg(self, ids):
        r = self.rng.random()
        pick = lambda: [self.rng.choice(ids) for _ in range(self.rng.randint(0, 3))]
        if r < 0.35:
            return {"shape": "dict_name", "values": [[enc_id(i), enc_val_req(self.rng.choice(ATTR_VALS))] for i in dict.fromkeys(pick())],
                    "name": self.rng.choice(ATTR_KEYS)}
        if r < 0.6:
            return {"shape": "const_name", "value": enc_val_req(self.rng.choice([v for v in ATTR_VALS if not isinstance(v, dict)])), "name": self.rng.choice(ATTR_KEYS)}
        if r < 0.95:
            return {"shape": "dict_of_dict", "values": [[enc_id(i), enc_attrs_req(self.attrs(1.0))] for i in dict.fromkeys(pick())]}
        return {"shape": "bad_no_name"}

    def direction(self):
        return "sideways" if self.rng.random() < 0.03 else self.rng.choice(DIRECTIONS)

    def op(self):
        op = self._op()
        d = DEFAULTS.get(op["op"])
        if d and self.rng.random() < 0.35:
            omit = [k for k in d if self.rng.random() < 0.6]
            for k in omit:
                op[k] = d[k]
            if omit:
                op["omit"] = omit
        if op["op"] == "cleanup" and not op["in_place"]:
            self.is_frozen = False
        return op

    def _op(self):
        w = dict(self.OPS)
        w.update(self.weights)
        if self.is_frozen and not self.frozen_links:
            w["add_node_to_edge"] = 0
            w["remove_node_from_edge"] = 0
        names = list(w)
        name = self.rng.choices(names, [w[n] for n in names])[0]
        r = self.rng
        b = lambda p=0.5: r.random() < p
        if name == "add_node":
            return {"op": name, "n": enc_id(self.node()), "attr": enc_attrs_req(self.attrs())}
        if name == "add_nodes_from":
            return {"op": name, "items": [self.node_item() for _ in range(r.randint(0, 4))], "attr": enc_attrs_req(self.attrs(0.3))}
        if name == "remove_node":
            return {"op": name, "n": enc_id(self.node()), "strong": b(), "remove_empty": b(0.6)}
        if name == "remove_nodes_from":
            return {"op": name, "ns": [enc_id(self.node()) for _ in range(r.randint(0, 3))], "strong": b(), "remove_empty": b(0.6)}
        if name == "add_edge":
            idx = "$auto" if b(0.5) else xenc(self.eid())
            return {"op": name, "members": self.members(), "idx": idx, "attr": enc_attrs_req(self.attrs()),
                    "container": r.choice(["iter", "iter-tail", "iter-head"]) if b(0.1) else None}
        if name == "add_edges_from":
            fmt = r.choice([1, 1, 2, 3, 4, 5])
            return {"op": name, "fmt": fmt, "items": self.edge_items(fmt, 0, 4), "attr": enc_attrs_req(self.attrs(0.3)),
                    "container": r.choice(["iter", "iter-tail", "iter-head"]) if b(0.15) else None}
        if name == "add_node_to_edge":
            return {"op": name, "e": xenc(self.eid()), "n": enc_id(self.node()), "direction": self.direction()}
        if name == "remove_edge":
            return {"op": name, "e": xenc(self.eid())}
        if name == "remove_edges_from":
            return {"op": name, "es": [xenc(self.eid()) for _ in range(r.randint(0, 3))]}
        if name == "remove_node_from_edge":
            return {"op": name, "e": xenc(self.eid()), "n": enc_id(self.node()), "direction": self.direction(), "remove_empty": b(0.6)}
        if name == "set_node_attributes":
            return {"op": name, **self.attr_arg(self.nodes)}
        if name == "set_edge_attributes":
            return {"op": name, **self.attr_arg(self.eids)}
        if name == "set_net_attr":
            return {"op": name, "k": r.choice(ATTR_KEYS), "v": enc_val_req(r.choice(ATTR_VALS))}
        if name == "clear":
            return {"op": name, "remove_net_attr": b()}
        if name == "copy":
            self.is_frozen = False
            return {"op": name}
        if name == "cleanup":
            return {"op": name, "isolates": b(), "relabel": b(), "in_place": b(0.7)}
        if name == "relabel":
            return {"op": name, "label_attribute": r.choice(["label", "old"])}
        if name == "freeze":
            self.is_frozen = True
            return {"op": name}
        # clone routes (lean/XgiModel/C02/Copy.lean); not in OPS: generated only when `weights` names them
        if name == "pickle":
            self.is_frozen = False
            return {"op": name}
        if name == "construct":
            self.is_frozen = False
            return {"op": name, "attr": enc_attrs_req(self.attrs(0.4))}
        raise AssertionError(name)


def gen_history(rng, lo=1, hi=30, weights=None, malformed=0.04, frozen_links=True):
    g = Gen(rng, weights, malformed, frozen_links)
    k = rng.randint(lo, hi)
    ops = []
    if g.large:
        # regime family: >= 70 node labels (two above 2**53), > 130 parallel edges (same tail and head), IDs above 2**53
        B = 2 ** 53
        items = [{"members": {"tail": [enc_id(g.nodes[0]), enc_id(g.nodes[-1])], "head": [enc_id(g.nodes[1])], "as": "tuple"},
                  "idx": (B + 10 + 2 * j) if j % 2 else (1000 + j)} for j in range(134)]
        for j in range(36):
            a, b_, c = rng.sample(g.nodes, 3)
            items.append({"members": {"tail": [enc_id(a), enc_id(b_)], "head": [enc_id(c), enc_id(g.nodes[2 * j + 1])], "as": "list"},
                          "idx": 2000 + j})
        fmt = rng.choice([2, 5])
        ops.append({"op": "add_edges_from", "fmt": fmt, "items": items, "attr": []})
        ops += [g.op() for _ in range(min(k, 6))]
        return ops
    # a bulk start makes non-trivial states likely
    if rng.random() < 0.7:
        fmt = rng.choice([1, 1, 2, 3, 4, 5])
        items = g.edge_items(fmt, 1, 5, bad=False)
        for it in items:
            m = it["members"]
            m["tail"] = [x for x in m["tail"] if x is not None] or [enc_id(g.nodes[0])]
            m["head"] = [x for x in m["head"] if x is not None]
            if "idx" in it and it["idx"] is None:
                it["idx"] = enc_id(g.eids[0])
        if fmt == 5:
            seen, out = set(), []
            for it in items:
                if _dkey(it["idx"]) not in seen:
                    seen.add(_dkey(it["idx"])); out.append(it)
            items = out
        ops.append({"op": "add_edges_from", "fmt": fmt, "items": items, "attr": []})
    ops += [g.op() for _ in range(k)]
    return ops


# ----------------------------------------------------------------------------- execution on the implementation

class Box:
    """the network a history operates on; `copy` / `cleanup(in_place=False)` replace it by the returned one"""

    def __init__(self, H):
        self.H = H


def _attrs(pairs):
    return {k: _val(v) for k, v in pairs}


def _val(v):
    if isinstance(v, dict) and "$o" in v:
        import json
        return json.loads(v["$o"])
    if isinstance(v, dict) and "$set" in v:
        return {_val(x) for x in v["$set"]}
    return v


def _node_items(items):
    out = []
    for it in items:
        n = dec_id(it["n"])
        out.append((n, _attrs(it["attr"])) if "attr" in it else n)
    return out


def _members(m):
    """the Python `members` argument of a directed edge"""
    if m.get("bad") == "not_seq":
        return {1, 2}                      # a set: not a list/tuple, not subscriptable
    if m.get("bad") == "short":
        return ([1],)                      # a sequence with fewer than two entries
    t, h = [dec_id(x) for x in m["tail"]], [dec_id(x) for x in m["head"]]
    if m.get("alias") and t == h:
        # the SAME object as tail and as head (a list, or a set when the members are duplicate-free): the network must not
        # keep one set for both sides
        if m["alias"] == "set" and None not in t and len(set(map(repr, t))) == len(t):
            try:
                t = set(t)
                m["tail"] = m["head"] = [enc_id(x) for x in t]      # oracle: iteration order of the set
            except TypeError:
                pass
        h = t
    return [t, h] if m.get("as") == "list" else (t, h)


def _iter_members(ms, which="iter"):
    """tail and / or head handed over as one-shot iterators (the library may look at them only once);
    which = "iter" (both sides), "iter-tail", "iter-head" (one side an iterator, the other a list)"""
    if isinstance(ms, (list, tuple)) and len(ms) == 2 and isinstance(ms[0], list) and isinstance(ms[1], list):
        return type(ms)((iter(ms[0]) if which != "iter-head" else ms[0], iter(ms[1]) if which != "iter-tail" else ms[1]))
    return ms


def _ebunch(fmt, items, container=None):
    if container in ("iter", "iter-tail", "iter-head"):
        out = []
        d = {}
        for it in items:
            ms = _iter_members(_members(it["members"]), container)
            if fmt == 5:
                d[dec_id(it["idx"])] = ms
            elif fmt == 1:
                out.append(ms)
            elif fmt == 2:
                out.append((ms, dec_id(it["idx"])))
            elif fmt == 3:
                out.append((ms, _attrs(it.get("attr", []))))
            else:
                out.append((ms, dec_id(it["idx"]), _attrs(it.get("attr", []))))
        return d if fmt == 5 else out
    if fmt == 5:
        # the caller's containers may be sets, and the same set object may appear more than once (two edges with the
        # same tail, or tail and head given as one set): the network must copy what it is given
        cache = {}

        def as_shared_sets(ms):
            if not isinstance(ms, (list, tuple)) or len(ms) != 2:
                return ms
            try:
                t, h = ms
                kt, kh = ("s", tuple(t)), ("s", tuple(h))
                st = cache.setdefault(kt, set(t)) if len(set(t)) == len(t) else t
                sh = cache.setdefault(kh, set(h)) if len(set(h)) == len(h) else h
                return type(ms)((st, sh))
            except TypeError:
                return ms
        out = {}
        for it in items:
            ms = as_shared_sets(_members(it["members"]))
            if isinstance(ms, (list, tuple)) and len(ms) == 2 and "tail" in it["members"]:
                # oracle: the model iterates the members in the order the (set) containers iterate
                if isinstance(ms[0], set):
                    it["members"]["tail"] = [enc_id(x) for x in ms[0]]
                if isinstance(ms[1], set):
                    it["members"]["head"] = [enc_id(x) for x in ms[1]]
            out[dec_id(it["idx"])] = ms
        return out
    out = []
    for it in items:
        ms = _members(it["members"])
        if fmt == 1:
            out.append(ms)
        elif fmt == 2:
            out.append((ms, dec_id(it["idx"])))
        elif fmt == 3:
            out.append((ms, _attrs(it.get("attr", []))))
        else:
            out.append((ms, dec_id(it["idx"]), _attrs(it.get("attr", []))))
    return out


def _attr_call(f, op):
    sh = op["shape"]
    if sh == "dict_name":
        return f({dec_id(i): _val(v) for i, v in op["values"]}, name=op["name"])
    if sh == "const_name":
        return f(_val(op["value"]), name=op["name"])
    if sh == "dict_of_dict":
        return f({dec_id(i): _attrs(a) for i, a in op["values"]})
    return f(3)


def _kw(op, *names):
    """the keyword arguments of the call: those named in op["omit"] are left to the library's defaults"""
    return {k: op[k] for k in names if k not in op.get("omit", ())}


def call(box, op):
    """perform the public call described by `op` on the real network"""
    H = box.H
    name = op["op"]
    if name == "add_node":
        return H.add_node(dec_id(op["n"]), **_attrs(op["attr"]))
    if name == "add_nodes_from":
        return H.add_nodes_from(_node_items(op["items"]), **_attrs(op["attr"]))
    if name == "remove_node":
        return H.remove_node(dec_id(op["n"]), **_kw(op, "strong", "remove_empty"))
    if name == "remove_nodes_from":
        return H.remove_nodes_from([dec_id(n) for n in op["ns"]], **_kw(op, "strong", "remove_empty"))
    if name == "add_edge":
        kw = {} if op["idx"] == "$auto" else {"idx": dec_id(op["idx"])}
        if op["idx"] is None:
            kw = {"idx": None}
            op["idx"] = "$auto"                                # idx=None *is* the automatic id
        ms = _members(op["members"])
        if op.get("container"):
            ms = _iter_members(ms, op["container"])
        return H.add_edge(ms, **kw, **_attrs(op["attr"]))
    if name == "add_edges_from":
        return H.add_edges_from(_ebunch(op["fmt"], op["items"], op.get("container")), **_attrs(op["attr"]))
    if name == "add_node_to_edge":
        return H.add_node_to_edge(dec_id(op["e"]), dec_id(op["n"]), op["direction"])
    if name == "remove_edge":
        return H.remove_edge(dec_id(op["e"]))
    if name == "remove_edges_from":
        return H.remove_edges_from([dec_id(e) for e in op["es"]])
    if name == "remove_node_from_edge":
        return H.remove_node_from_edge(dec_id(op["e"]), dec_id(op["n"]), op["direction"], **_kw(op, "remove_empty"))
    if name == "set_node_attributes":
        return _attr_call(H.set_node_attributes, op)
    if name == "set_edge_attributes":
        return _attr_call(H.set_edge_attributes, op)
    if name == "set_net_attr":
        H[op["k"]] = _val(op["v"])
        return
    if name == "clear":
        return H.clear(**_kw(op, "remove_net_attr"))
    if name == "copy":
        box.H = H.copy()
        return
    if name == "cleanup":
        box.H = H.cleanup(**_kw(op, "isolates", "relabel", "in_place"))
        return
    if name == "relabel":
        return xgi.convert_labels_to_integers(H, label_attribute=op["label_attribute"], in_place=True)
    if name == "freeze":
        return H.freeze()
    if name == "pickle":
        import pickle
        box.H = pickle.loads(pickle.dumps(H))
        return
    if name == "construct":
        box.H = xgi.DiHypergraph(H, **_attrs(op["attr"]))
        return
    raise AssertionError(name)


# ----------------------------------------------------------------------------- watchdog
# A public call that does not return (a loop that never ends after a wrong edit of the library) must end the history
# with an outcome the predicates can report, not hang the check: every call runs under an interval timer.  Ordinary
# calls take milliseconds.  After the first timeout of a process the limit shrinks (shrinking a failing history re-runs
# the hanging call many times), and the total time spent waiting for calls that never return is bounded by a budget:
# once it is used up, calls of the kinds that have hung are not executed any more but end at once with a CallTimeout
# marked `presumed`, which the predicates do not report (a presumed hang is no witness) — the run has its concrete
# witnesses by then and the remaining histories simply end there.
CALL_TIMEOUT_S = [float(os.environ.get("VERIF_CALL_TIMEOUT", "10"))]
HANG = {"budget": float(os.environ.get("VERIF_HANG_BUDGET", "45")), "kinds": set()}


class CallTimeout(Exception):
    """a public call did not return within the time limit"""
    presumed = False


def guarded(callf):
    """`callf(net, op)` under the watchdog (main thread only; elsewhere the call runs unguarded)"""
    def run(net, op):
        if threading.current_thread() is not threading.main_thread():
            return callf(net, op)
        kind = op.get("op")
        if HANG["budget"] <= 0 and kind in HANG["kinds"]:
            e = CallTimeout(f"{kind}: not executed (calls of this kind did not return before; the time budget for hanging calls is used up)")
            e.presumed = True
            raise e
        limit = CALL_TIMEOUT_S[0]

        def on_alarm(signum, frame):
            CALL_TIMEOUT_S[0] = min(CALL_TIMEOUT_S[0], 0.3)
            HANG["budget"] -= limit
            HANG["kinds"].add(kind)
            raise CallTimeout(f"{kind} did not return within {limit:g} s")
        old = signal.signal(signal.SIGALRM, on_alarm)
        signal.setitimer(signal.ITIMER_REAL, limit)
        try:
            return callf(net, op)
        finally:
            signal.setitimer(signal.ITIMER_REAL, 0)
            signal.signal(signal.SIGALRM, old)
    return run


def outcome_of(exc, warned):
    if exc is None:
        return "warned" if warned else "ok"
    if isinstance(exc, CallTimeout):
        return "err:hang"
    if isinstance(exc, (XGIError, IDNotFound)):
        return "err:lib"
    if isinstance(exc, TypeError):
        return "err:type"
    if isinstance(exc, ValueError):
        return "err:value"
    return "err:other"


def apply_impl(box, op, callf=call):
    with warnings.catch_warnings(record=True) as w:
        warnings.simplefilter("always")
        exc = None
        try:
            if getattr(box, "hung", None) is not None:
                raise box.hung            # the network of a call that never returned is garbage: the history ends there
            guarded(callf)(box, op)
        except Exception as e:  # noqa
            exc = e
            if isinstance(e, CallTimeout):
                box.hung = e
        finally:
            warned = any(issubclass(x.category, UserWarning) for x in w)
            del w[:]                      # (a call that warns in an endless loop leaves a long list)
    return outcome_of(exc, warned), exc


def safe_id(x):
    """xsafe: the encoded ID (exotic IDs in their marked form), or the marker "$bad:<type>" for an object that is no ID at
    all (what a wrong edit of the library may store as a node or edge: an iterator, a list, …) — the snapshot must stay
    readable, the predicate reports it"""
    return xsafe(x)


def sids(it):
    return sorted((safe_id(x) for x in it), key=idkey)


def _stat(view, name, ids):
    """[[id, value]] of a stat in view order, "$err:…" when the stat cannot be computed"""
    try:
        d = getattr(view, name).asdict()
        return [[safe_id(i), d[i]] for i in ids]
    except Exception as ex:  # noqa
        return "$err:" + type(ex).__name__


def snapshot(box, out="ok"):
    """canonical observation of a directed network through the public API (`DH.nodes`, `DH.edges`,
    `DH.edges.dimembers(e)` cross-read with `tail(e)`/`head(e)`, `DH.nodes.dimemberships(n)`, `DH.nodes[n]`,
    `DH.edges[e]`, in/out/total degree and tail/head/total size stats); private key sets and counter when present"""
    H = box.H
    if getattr(box, "hung", None) is not None:
        # after a call that never returned the object may hold millions of entries: observe an empty network instead
        # (the predicate reports `call-does-not-return` from the outcome alone)
        H = xgi.DiHypergraph()
    nodes, edges = list(H.nodes), list(H.edges)
    s = {"out": out, "nodes": [safe_id(n) for n in nodes], "edges": [safe_id(e) for e in edges]}
    tail, head, mi, mo, nattr, eattr = [], [], [], [], [], []
    for e in edges:
        try:
            t, h = H.edges.dimembers(e)
            t, h = sids(t), sids(h)
            if t != sids(H.edges.tail(e)) or h != sids(H.edges.head(e)):
                t = h = "$err:dimembers-differs-from-tail-head"
        except Exception as ex:  # noqa
            t = h = "$err:" + type(ex).__name__
        tail.append([safe_id(e), t]); head.append([safe_id(e), h])
        try:
            eattr.append([safe_id(e), enc_attrs(H.edges[e])])
        except Exception:  # noqa
            eattr.append([safe_id(e), "$missing"])
    for n in nodes:
        try:
            i, o = H.nodes.dimemberships(n)
            i, o = sids(i), sids(o)
        except Exception as ex:  # noqa
            i = o = "$err:" + type(ex).__name__
        mi.append([safe_id(n), i]); mo.append([safe_id(n), o])
        try:
            nattr.append([safe_id(n), enc_attrs(H.nodes[n])])
        except Exception:  # noqa
            nattr.append([safe_id(n), "$missing"])
    s.update(tail=tail, head=head, membIn=mi, membOut=mo, nattr=nattr, eattr=eattr)
    s["indeg"] = _stat(H.nodes, "in_degree", nodes)
    s["outdeg"] = _stat(H.nodes, "out_degree", nodes)
    s["deg"] = _stat(H.nodes, "degree", nodes)
    s["tailsize"] = _stat(H.edges, "tail_size", edges)
    s["headsize"] = _stat(H.edges, "head_size", edges)
    s["size"] = _stat(H.edges, "size", edges)
    na, ea = getattr(H, "_node_attr", None), getattr(H, "_edge_attr", None)
    s["nattrK"] = sids(na.keys()) if na is not None else sids(nodes)
    s["eattrK"] = sids(ea.keys()) if ea is not None else sids(edges)
    s["net"] = enc_attrs(getattr(H, "_net_attr", {}))
    try:
        s["uid"] = next(copy.copy(H._edge_uid))
    except Exception:  # noqa
        s["uid"] = "$err"
    s["frozen"] = bool(H.is_frozen)
    return s


def to_request(op):
    r = copy.deepcopy({k: v for k, v in op.items() if k not in ("container", "omit")})
    if isinstance(r.get("members"), dict):
        r["members"].pop("as", None); r["members"].pop("alias", None)
    for it in r.get("items", []) or []:
        if isinstance(it, dict) and isinstance(it.get("members"), dict):
            it["members"].pop("as", None); it["members"].pop("alias", None)
    return model_request(r)


def nontrivial(snap, kinds):
    """a state reached through >= 2 op kinds that has an edge with a non-empty tail and a non-empty head"""
    heads = dict((repr(e), h) for e, h in snap["head"])
    return len(kinds) >= 2 and any(isinstance(t, list) and t and isinstance(heads.get(repr(e)), list) and heads[repr(e)]
                                   for e, t in snap["tail"])


NAME = "DiHypergraph"
CORPUS = "DHG"   # shared corpus directory corpus/DHG/*.json: run first by every check that drives this state machine


def factory():
    return Box(xgi.DiHypergraph())
