"""C01, implementation-side family for ID types outside the model's domain (float, numpy, bool, bytes, frozenset, huge /
mixed-equal labels such as 1 and 1.0): random histories of public mutator calls on the real xgi.Hypergraph, the two-way
incidence + attribute-record predicate evaluated directly on the network after every call, returning or raising.  No model
is involved (the theorems quantify over the model's ID domain); this widens the failing-input search only."""
import json
import warnings

import numpy as np
import xgi

UNIVERSES = {
    "float": [0.0, 1.0, 2.0, 3.0, 2.5],
    "numpy": [np.int64(0), np.int64(1), np.int32(2), np.int64(3), np.int64(7)],
    "bool+int": [True, 0, 2, 3, False],
    "int+float": [1, 1.0, 2, 3.0, 0],
    "bytes": [b"a", b"b", b"5", b"c"],
    "frozenset": [frozenset([1]), frozenset([1, 2]), frozenset(), frozenset(["a"])],
    "big": [2**53, 2**53 + 1, 10**30, 10**309, 0],
}
EDGE_IDS = {
    "float": [0.0, 1.0, 2.0, 5.0, 2.5], "numpy": [np.int64(0), np.int64(1), np.int64(2), np.int32(5)],
    "bool+int": [True, False, 2, 0], "int+float": [0, 1.0, 2, 3.0], "bytes": [b"e", b"5", b"f"],
    "frozenset": [frozenset([9]), frozenset(), frozenset(["x"])], "big": [2**53, 10**30, 10**309, 1],
}


def enc(x):
    """JSON form of an exotic ID for the replay file"""
    if isinstance(x, (bool,)):
        return {"$bool": bool(x)}
    if isinstance(x, np.integer):
        return {"$np": int(x), "t": type(x).__name__}
    if isinstance(x, float):
        return {"$float": x}
    if isinstance(x, bytes):
        return {"$bytes": x.decode("latin-1")}
    if isinstance(x, frozenset):
        return {"$fs": sorted((enc(y) for y in x), key=lambda j: json.dumps(j, sort_keys=True))}
    if isinstance(x, (list, tuple)):
        return [enc(y) for y in x]
    return x


def dec(j):
    if isinstance(j, dict):
        if "$bool" in j:
            return bool(j["$bool"])
        if "$np" in j:
            return getattr(np, j.get("t", "int64"))(j["$np"])
        if "$float" in j:
            return float(j["$float"])
        if "$bytes" in j:
            return j["$bytes"].encode("latin-1")
        if "$fs" in j:
            return frozenset(dec(y) for y in j["$fs"])
    if isinstance(j, list):
        return [dec(y) for y in j]
    return j


def gen_op(rng, uni):
    nodes, eids = UNIVERSES[uni], EDGE_IDS[uni]
    mem = lambda lo=0, hi=3: [rng.choice(nodes) for _ in range(rng.randint(lo, hi))]
    k = rng.random()
    if k < 0.22:
        return ["add_edge", mem(), None if rng.random() < 0.6 else rng.choice(eids)]
    if k < 0.38:
        return ["add_edges_from", [mem(1, 3) for _ in range(rng.randint(1, 3))]]
    if k < 0.46:
        return ["add_edges_from_ids", [[mem(1, 3), rng.choice(eids)] for _ in range(rng.randint(1, 3))]]
    if k < 0.54:
        return ["add_node_to_edge", rng.choice(eids), rng.choice(nodes)]
    if k < 0.62:
        return ["remove_node", rng.choice(nodes), rng.random() < 0.5]
    if k < 0.68:
        return ["remove_edge", rng.choice(eids + [0, 1, 2])]
    if k < 0.74:
        return ["remove_node_from_edge", rng.choice(eids + [0, 1]), rng.choice(nodes)]
    if k < 0.82:
        return ["relabel"]
    if k < 0.88:
        return ["cleanup", rng.random() < 0.5, rng.random() < 0.5]
    if k < 0.94:
        return ["merge_duplicate_edges", rng.choice(["first", "new", "tuple"])]
    if k < 0.97:
        return ["add_nodes_from", mem(1, 3)]
    return ["lcc"]


def apply(H, op):
    name = op[0]
    if name == "add_edge":
        return H.add_edge(list(op[1])) if op[2] is None else H.add_edge(list(op[1]), idx=op[2])
    if name == "add_edges_from":
        return H.add_edges_from([list(m) for m in op[1]])
    if name == "add_edges_from_ids":
        return H.add_edges_from([(list(m), i) for m, i in op[1]])
    if name == "add_node_to_edge":
        return H.add_node_to_edge(op[1], op[2])
    if name == "remove_node":
        return H.remove_node(op[1], strong=op[2])
    if name == "remove_edge":
        return H.remove_edge(op[1])
    if name == "remove_node_from_edge":
        return H.remove_node_from_edge(op[1], op[2])
    if name == "relabel":
        return xgi.convert_labels_to_integers(H, in_place=True)
    if name == "cleanup":
        return H.cleanup(connected=op[1], relabel=op[2])
    if name == "merge_duplicate_edges":
        return H.merge_duplicate_edges(rename=op[1])
    if name == "add_nodes_from":
        return H.add_nodes_from(list(op[1]))
    if name == "lcc":
        return xgi.largest_connected_hypergraph(H, in_place=True)
    raise AssertionError(name)


def integrity(H):
    """list of (failure_class, detail): the C01 predicate read off the real network (public API + attribute tables)"""
    fails = []
    nodes, edges = list(H.nodes), list(H.edges)
    for e in edges:
        try:
            ms = H.edges.members(e)
        except Exception as ex:  # noqa
            fails.append(("edge-unreadable", f"edges.members({e!r}) raised {type(ex).__name__}")); continue
        for n in ms:
            if n not in H.nodes:
                fails.append(("member-not-a-node", f"edge {e!r} lists {n!r}, which is not a node")); continue
            if e not in H.nodes.memberships(n):
                fails.append(("member-without-membership", f"edge {e!r} lists {n!r}, whose memberships lack it"))
    for n in nodes:
        try:
            es = H.nodes.memberships(n)
        except Exception as ex:  # noqa
            fails.append(("node-unreadable", f"nodes.memberships({n!r}) raised {type(ex).__name__}")); continue
        for e in es:
            if e not in H.edges:
                fails.append(("membership-not-an-edge", f"node {n!r} lists {e!r}, which is not an edge")); continue
            if n not in H.edges.members(e):
                fails.append(("membership-without-member", f"node {n!r} lists {e!r}, whose members lack it"))
    na, ea = getattr(H, "_node_attr", None), getattr(H, "_edge_attr", None)
    if na is not None and (len(na) != len(nodes) or any(n not in na for n in nodes)):
        fails.append(("node-attr-records", f"attribute records {list(na)!r} for nodes {nodes!r}"))
    if ea is not None and (len(ea) != len(edges) or any(e not in ea for e in edges)):
        fails.append(("edge-attr-records", f"attribute records {list(ea)!r} for edges {edges!r}"))
    return fails


def run_history(uni, ops):
    """-> (index, failure_class, detail) of the first predicate failure, or None"""
    H = xgi.Hypergraph()
    for i, op in enumerate(ops):
        with warnings.catch_warnings():
            warnings.simplefilter("ignore")
            try:
                apply(H, op)
            except Exception:  # noqa
                pass
        f = integrity(H)
        if f:
            return i, f[0][0], f[0][1]
    return None


def run_exotic(ctx, n):
    rng = ctx.rng
    for _ in range(n):
        uni = rng.choice(sorted(UNIVERSES))
        ops = [gen_op(rng, uni) for _ in range(rng.randint(2, 14))]
        r = run_history(uni, ops)
        ctx.evaluations += len(ops)
        ctx.stats["exotic:" + uni] += 1
        if r is None:
            continue
        i, cls, detail = r
        small = ops[: i + 1]
        # shrink: drop single calls while the same failure class remains
        j = 0
        while j < len(small) - 1:
            cand = small[:j] + small[j + 1:]
            rr = run_history(uni, cand)
            if rr is not None and rr[1] == cls:
                small = cand[: rr[0] + 1]
            else:
                j += 1
        ctx.violation(small[-1][0], "exotic-ids:" + cls, {"exotic": uni, "ops": enc(small)}, detail=f"[{uni} labels] {detail}")


def replay_exotic(ctx, case, path):
    ops = dec(case["ops"])
    r = run_history(case["exotic"], ops)
    if r:
        print(f"VIOLATION property={ctx.prop} replay={path}")
        print(f"  reproduced: {r[1]}: {r[2]}")
        return 1
    print(f"replay {path}: not reproduced on the current tree")
    return 0
