"""Shared machinery of every check: Lean build + audit, model driver, verdict, known findings, evidence.

Run with /venv/bin/python (xgi is an editable install of /repo, so `import xgi` is /repo's current tree).
"""
import fcntl
import hashlib
import json
import os
import random
import re
import subprocess
import sys
import time
from collections import Counter

VERIF = os.path.dirname(os.path.dirname(os.path.abspath(__file__)))
LEAN = os.path.join(VERIF, "lean")
OUT = os.path.join(VERIF, "out")  # run-time output (replays, scratch); git-ignored
EVID = os.path.join(VERIF, "evidence")
ALLOWED_AXIOMS = {"propext", "Classical.choice", "Quot.sound"}
FORBIDDEN = re.compile(r"\bsorry\b|\badmit\b|^\s*axiom\s|native_decide|bv_decide|implemented_by|\bunsafe\s|maxHeartbeats\s+0")


class Infra(Exception):
    """infrastructure failure: exit 2, never a verdict"""


class _Done:
    def __init__(self, returncode, stdout, stderr):
        self.returncode, self.stdout, self.stderr = returncode, stdout, stderr


def run_proc(cmd, cwd=None, input=None, timeout=3000):
    """subprocess.run(capture_output, text) in its own process group; on timeout the whole group is killed
    (`lake env lean …` would otherwise leave the `lean` child spinning) and subprocess.TimeoutExpired is raised"""
    import signal
    p = subprocess.Popen(cmd, cwd=cwd, stdin=subprocess.PIPE if input is not None else subprocess.DEVNULL,
                         stdout=subprocess.PIPE, stderr=subprocess.PIPE, text=True, start_new_session=True)
    try:
        out, err = p.communicate(input=input, timeout=timeout)
    except subprocess.TimeoutExpired:
        try:
            os.killpg(p.pid, signal.SIGKILL)
        except Exception:  # noqa
            pass
        p.wait()
        raise
    return _Done(p.returncode, out, err)


def repo_root():
    return os.environ.get("XGI_REPO") or "/repo"


def jsonable(o):
    """make any case/detail object JSON-serialisable (dict keys of any type, numpy scalars, sets, tuples)"""
    if isinstance(o, dict):
        return {(k if isinstance(k, str) else repr(k)): jsonable(v) for k, v in o.items()}
    if isinstance(o, (list, tuple)):
        return [jsonable(x) for x in o]
    if isinstance(o, (set, frozenset)):
        return sorted((jsonable(x) for x in o), key=repr)
    if o is None or isinstance(o, (bool, int, float, str)):
        return o
    try:
        import numpy as np
        if isinstance(o, np.integer):
            return int(o)
        if isinstance(o, np.floating):
            return float(o)
        if isinstance(o, np.ndarray):
            return jsonable(o.tolist())
    except Exception:  # noqa
        pass
    return repr(o)


def jhash(obj):
    return hashlib.sha1(json.dumps(obj, sort_keys=True, default=repr).encode()).hexdigest()[:16]


# ----------------------------------------------------------------------------- Lean side

class _Lock:
    """exclusive lock on the Lean project (translate -> build -> audit is one critical section); re-entrant per process"""
    depth = 0
    handle = None

    def __enter__(self):
        if _Lock.depth == 0:
            os.makedirs(OUT, exist_ok=True)
            _Lock.handle = open(os.path.join(OUT, ".lean.lock"), "w")
            fcntl.flock(_Lock.handle, fcntl.LOCK_EX)
        _Lock.depth += 1
        return self

    def __exit__(self, *a):
        _Lock.depth -= 1
        if _Lock.depth == 0:
            fcntl.flock(_Lock.handle, fcntl.LOCK_UN)
            _Lock.handle.close()
            _Lock.handle = None


def lean_build(modules, timeout=3000):
    """lake build the given modules; returns (ok, output)."""
    with _Lock():
        try:
            p = run_proc(["lake", "build"] + list(modules), cwd=LEAN, timeout=timeout)
        except subprocess.TimeoutExpired:
            raise Infra("lake build timed out")
    return p.returncode == 0, p.stdout + p.stderr


def _strip_comments(src):
    src = re.sub(r"/-.*?-/", "", src, flags=re.S)
    return "\n".join(l.split("--")[0] for l in src.split("\n"))


def module_file(mod):
    return os.path.join(LEAN, *mod.split(".")) + ".lean"


def import_closure(mod, seen=None):
    """project-local import closure of a module (XgiModel.* only)"""
    seen = seen if seen is not None else []
    if mod in seen:
        return seen
    f = module_file(mod)
    if not os.path.exists(f):
        return seen
    seen.append(mod)
    for m in re.findall(r"^import\s+(XgiModel\.[\w.]+)", open(f).read(), flags=re.M):
        import_closure(m, seen)
    return seen


def theorems_of(mod):
    """fully qualified names of the `theorem`s declared in a module (namespace-aware, comments stripped)"""
    src = _strip_comments(open(module_file(mod)).read())
    ns, names = [], []
    for line in src.split("\n"):
        m = re.match(r"^\s*namespace\s+([\w.]+)", line)
        if m:
            ns.append(m.group(1)); continue
        m = re.match(r"^\s*end\s+([\w.]+)\s*$", line)
        if m and ns and ns[-1] == m.group(1):
            ns.pop(); continue
        m = re.match(r"^\s*(?:@\[[^\]]*\]\s*)*(?:private\s+|protected\s+)?theorem\s+([\w.']+)", line)
        if m:
            names.append(".".join(ns + [m.group(1)]))
    return names


def lean_audit(prop_mod, extra_mods=()):
    """Audit: forbidden-token scan over the import closure and `#print axioms` for every theorem of the
    property module.  Returns dict(theorems, discharged, problems)."""
    problems = []
    closure = []
    for m in (prop_mod,) + tuple(extra_mods):
        import_closure(m, closure)
    for mod in closure:
        src = _strip_comments(open(module_file(mod)).read())
        for i, line in enumerate(src.split("\n"), 1):
            if FORBIDDEN.search(line):
                problems.append(f"forbidden token in {mod}:{i}: {line.strip()[:80]}")
    thms = []
    for m in (prop_mod,) + tuple(extra_mods):
        thms += theorems_of(m)
    os.makedirs(os.path.join(LEAN, "Audit"), exist_ok=True)
    af = os.path.join(LEAN, "Audit", prop_mod.split(".")[-1] + ".lean")
    body = "".join(f"import {m}\n" for m in (prop_mod,) + tuple(extra_mods)) + "".join(f"#print axioms {t}\n" for t in thms)
    if not os.path.exists(af) or open(af).read() != body:
        open(af, "w").write(body)
    out = ""
    for attempt in range(2):
        try:
            with _Lock():
                p = run_proc(["lake", "env", "lean", af], cwd=LEAN, timeout=1800)
        except subprocess.TimeoutExpired:
            raise Infra("audit timed out")
        out = p.stdout + p.stderr
        if "depends on axioms" in out or "does not depend on any axioms" in out or not thms:
            break
        time.sleep(3)       # transient: another process was rebuilding a shared module
    discharged = []
    flat = re.sub(r"\s+", " ", out)
    for t in thms:
        m = re.search(r"'" + re.escape(t) + r"' depends on axioms: \[([^\]]*)\]", flat)
        if m:
            ax = {a.strip() for a in m.group(1).split(",") if a.strip()}
            if ax <= ALLOWED_AXIOMS:
                discharged.append(t)
            else:
                problems.append(f"{t} depends on non-admitted axioms {sorted(ax - ALLOWED_AXIOMS)}")
        elif re.search(r"'" + re.escape(t) + r"' does not depend on any axioms", flat):
            discharged.append(t)
        else:
            problems.append(f"{t}: no axiom report (audit output: {out.strip()[-300:]})")
    return dict(theorems=thms, discharged=discharged, problems=problems)


def run_driver(name, requests, timeout=3000):
    """Pipe JSON request lines to `lake env lean --run Drivers/<name>.lean`; returns the parsed responses.
    Drivers are deterministic, so a transient failure (e.g. another check rebuilding a shared module at the same
    moment) is retried twice before it is reported as an infrastructure error."""
    os.makedirs(OUT, exist_ok=True)
    data = "".join(json.dumps(r) + "\n" for r in requests)
    last = ""
    for attempt in range(3):
        try:
            p = run_proc(["lake", "env", "lean", "--run", os.path.join("Drivers", name + ".lean")], cwd=LEAN,
                         input=data, timeout=timeout)
        except subprocess.TimeoutExpired:
            raise Infra(f"driver {name} timed out")
        lines = [l for l in p.stdout.split("\n") if l.strip()]
        if p.returncode == 0 and len(lines) == len(requests):
            try:
                return [json.loads(l) for l in lines]
            except ValueError as e:
                last = f"unparsable driver output: {e}"
        else:
            last = f"rc={p.returncode}, {len(lines)} responses for {len(requests)} requests; stderr: {p.stderr[-1500:]}"
        time.sleep(2 + 3 * attempt)
        with _Lock():      # wait for a concurrent build to finish
            pass
    raise Infra(f"driver {name}: {last}")


# ----------------------------------------------------------------------------- canonical forms

def idkey(x):
    """total order on JSON-encoded IDs / scalars"""
    if x is None:
        return (0, 0, "")
    if isinstance(x, bool):
        return (1, int(x), "")
    if isinstance(x, (int, float)):
        return (2, x, "")
    if isinstance(x, str):
        return (3, 0, x)
    return (4, 0, json.dumps(x, sort_keys=True))


def canon(j):
    """canonicalise a model response: {"$set": l} -> sorted list; {"$attrs": pairs} -> pairs sorted by key"""
    if isinstance(j, dict):
        if set(j) == {"$set"}:
            return sorted((canon(x) for x in j["$set"]), key=idkey)
        if set(j) == {"$attrs"}:
            return sorted(([k, canon(v)] for k, v in j["$attrs"]), key=lambda p: p[0])
        return {k: canon(v) for k, v in j.items()}
    if isinstance(j, list):
        return [canon(x) for x in j]
    return j


def enc_id(x):
    """Python ID -> JSON form (int, str, list for tuple, None); raises ValueError outside the modelled domain"""
    import numpy as np
    if x is None:
        return None
    if isinstance(x, (bool, float)):
        raise ValueError(f"ID outside model domain: {x!r}")
    if isinstance(x, (int, np.integer)):
        return int(x)
    if isinstance(x, str):
        return x
    if isinstance(x, tuple):
        return [enc_id(y) for y in x]
    raise ValueError(f"ID outside model domain: {x!r}")


def dec_id(j):
    return tuple(dec_id(x) for x in j) if isinstance(j, list) else j


def enc_val(v):
    """Python attribute value -> canonical JSON form used in comparisons"""
    if v is None or isinstance(v, str):
        return v
    if type(v).__module__ == "numpy" and hasattr(v, "item") and getattr(v, "shape", None) == ():
        v = v.item()          # a numpy scalar is the Python number it equals (an old numpy-integer ID recorded as a label)
    if isinstance(v, bool):
        return {"$o": json.dumps(v)}
    if isinstance(v, int):
        return v
    if isinstance(v, (set, frozenset)):
        return sorted((enc_val(x) for x in v), key=idkey)
    if isinstance(v, tuple):   # canonical text "(a, b)" as the model writes it; the model reads a leading "(" as
        # "hashable" (merge_duplicate_edges builds sets of attribute values), so a tuple around a mutable value is marked
        try:
            hash(v)
            mark = ""
        except TypeError:
            mark = "!"
        return {"$o": mark + "(" + ", ".join(json.dumps(x, sort_keys=True, default=repr) for x in v) + ")"}
    return {"$o": json.dumps(v, sort_keys=True, default=repr)}


def enc_val_req(v):
    """Python attribute value -> request form ({"$set": …} for sets)"""
    if isinstance(v, (set, frozenset)):
        return {"$set": [enc_val_req(x) for x in v]}
    return enc_val(v)


def enc_attrs(d):
    return sorted(([str(k), enc_val(v)] for k, v in d.items()), key=lambda p: p[0])


def enc_attrs_req(d):
    return [[str(k), enc_val_req(v)] for k, v in d.items()]


# ----------------------------------------------------------------------------- context, verdict, evidence

class Ctx:
    def __init__(self, prop, tier, seed):
        self.prop, self.tier, self.seed = prop, tier, seed
        self.rng = random.Random(seed)
        self.t0 = time.time()
        self.stats = Counter()
        self.samples = []
        self.violations = []        # concrete or unproven violations (dicts)
        self.broken = []            # names of theorems / correspondences that no longer check
        self.evaluations = 0
        self.nontrivial = set()
        self.traces = 0
        self.audit = None
        self.assumptions = []
        self.extra = {}
        self.rule = ""
        self.exhaustive = False

    @property
    def quick(self):
        return self.tier == "quick"

    def n(self, quick, thorough):
        return quick if self.quick else thorough

    def sample(self, s, cap=4):
        if len(self.samples) < cap:
            self.samples.append(s)

    def violation(self, site, failure_class, case, detail="", kind="concrete", broken=None):
        """record a violation; deduplicated on (site, failure_class, covered-by-a-known-finding?) — a case that a
        known-findings entry covers never absorbs one that it does not cover (and vice versa)"""
        cand = dict(kind=kind, site=site, failure_class=failure_class, case=case, detail=detail)
        if not hasattr(self, "_known"):
            self._known = [k for k in load_known() if k["property"] == self.prop]
        listed = any(_matches(k, cand) for k in self._known) if self._known else False
        for v in self.violations:
            if v["site"] == site and v["failure_class"] == failure_class and v["kind"] == kind and v.get("listed", False) == listed:
                v["count"] += 1
                # keep the smallest witness
                if len(json.dumps(jsonable(case), default=repr)) < len(json.dumps(jsonable(v["case"]), default=repr)):
                    v["case"], v["detail"] = case, detail
                return
        self.violations.append(dict(kind=kind, site=site, failure_class=failure_class, case=case, detail=detail,
                                    broken=broken or [], count=1, listed=listed))


def _matches(k, v):
    """a violation matches a known-findings entry when site and failure class agree and, if the entry names a witness
    pattern, the violation's own case/detail show it: `witness` = {"case_regex": …, "detail_regex": …} (either optional),
    matched against the JSON text of the replay case / the detail string.  A different violation at the same site
    (other class, or a case outside the witness pattern) is therefore still reported."""
    if not (v["kind"] == "concrete" and k["site"] == v["site"] and k["failure_class"] == v["failure_class"]):
        return False
    w = k.get("witness") or {}
    if w.get("case_regex") and not re.search(w["case_regex"], json.dumps(jsonable(v["case"]), sort_keys=True)):
        return False
    if w.get("detail_regex") and not re.search(w["detail_regex"], str(v["detail"])):
        return False
    return True


def is_known(ctx, v, known=None):
    known = known if known is not None else [k for k in load_known() if k["property"] == ctx.prop]
    return any(_matches(k, v) for k in known)


def unlisted_violations(ctx):
    """violations recorded so far that are NOT covered by a known-findings entry (only these count as
    'a concrete failing input was found' for the verdict logic — a listed finding must not mask a broken tie)"""
    known = [k for k in load_known() if k["property"] == ctx.prop]
    return [v for v in ctx.violations if not is_known(ctx, v, known)]


def load_known():
    """known findings: /verif/known_findings.json plus per-property files /verif/known_findings/*.json"""
    import glob
    out = []
    for p in [os.path.join(VERIF, "known_findings.json")] + sorted(glob.glob(os.path.join(VERIF, "known_findings", "*.json"))):
        if os.path.exists(p):
            out += json.load(open(p)).get("findings", [])
    return out


def finish(ctx, level="proof", checker_cmd="", trusted_base=None):
    """apply known findings, write replays + evidence, print the verdict lines, return the exit code"""
    known = [k for k in load_known() if k["property"] == ctx.prop]
    rc = 0
    reported = []
    known_hits = []
    os.makedirs(os.path.join(OUT, "replays", ctx.prop), exist_ok=True)
    for old in os.listdir(os.path.join(OUT, "replays", ctx.prop)):
        os.remove(os.path.join(OUT, "replays", ctx.prop, old))
    for v in ctx.violations:
        match = next((k for k in known if _matches(k, v)), None)
        if match:
            print(f"KNOWN-FINDING: property={ctx.prop} {match['site']} {match['failure_class']}: {match['description']}")
            known_hits.append(dict(site=v["site"], failure_class=v["failure_class"], occurrences=v["count"],
                                   detail=str(v["detail"])[:300], case=v["case"]))
            continue
        replay = dict(property=ctx.prop, kind=v["kind"] if v["kind"] == "concrete" else "no-failing-input-found",
                      seed=ctx.seed, site=v["site"], failure_class=v["failure_class"], case=v["case"],
                      detail=v["detail"], broken=v["broken"], occurrences=v["count"],
                      how=f"./check {ctx.prop} --replay <this file>")
        path = os.path.join(OUT, "replays", ctx.prop, (f"{v['site']}-{v['failure_class']}".replace("/", "_").replace(" ", "_")[:150]
                                                       + f"-{jhash(jsonable(v['case']))}.json"))
        with open(path, "w") as f:
            json.dump(jsonable(replay), f, indent=1)
        tail = "" if v["kind"] == "concrete" else " no-failing-input-found"
        print(f"VIOLATION property={ctx.prop} replay={path}{tail}")
        print(f"  site={v['site']} class={v['failure_class']} detail={str(v['detail'])[:300]}")
        reported.append(v)
        rc = 1
    audit = ctx.audit or dict(theorems=[], discharged=[], problems=[])
    cov = dict(
        obligations=len(audit["theorems"]), discharged=len(audit["discharged"]),
        checker_cmd=checker_cmd or f"cd lean && lake build XgiModel.Props.{ctx.prop} && lake env lean Audit/{ctx.prop}.lean",
        trusted_base=trusted_base or [],
        theorems=audit["theorems"], audit_problems=audit["problems"],
        evaluations=ctx.evaluations, distinct_nontrivial=len(ctx.nontrivial), rule=ctx.rule,
        traces_validated_against_impl=ctx.traces, samples=ctx.samples or ["<none>"],
        distribution={k: v for k, v in sorted(ctx.stats.items())}, exhaustive=ctx.exhaustive,
        broken=ctx.broken,
    )
    cov.update(ctx.extra)
    cov["known_findings_hit"] = known_hits     # listed genuine defects this run reproduced (printed as KNOWN-FINDING lines)
    cov["repo"] = repo_provenance()
    if cov["obligations"] == 0 or cov["discharged"] < cov["obligations"]:
        cov["level_note"] = "the Lean obligations did not all check in this run: the verdict of this run rests on the run-time search only"
    ev = dict(property_id=ctx.prop, tier=ctx.tier, seed=ctx.seed, level=level, coverage=cov,
              assumptions=ctx.assumptions, wall_s=round(time.time() - ctx.t0, 2), violations=len(reported))
    write_evidence(ctx.prop, ev)
    print(f"{ctx.prop} tier={ctx.tier} seed={ctx.seed}: obligations={cov['obligations']} discharged={cov['discharged']} "
          f"evaluations={ctx.evaluations} distinct_nontrivial={len(ctx.nontrivial)} traces={ctx.traces} "
          f"violations={len(reported)} wall={ev['wall_s']}s")
    return rc


def repo_provenance():
    root = repo_root()
    def git(*a):
        try:
            return subprocess.run(["git", "-C", root] + list(a), capture_output=True, text=True, timeout=30).stdout.strip()
        except Exception:  # noqa
            return "?"
    return {"root": root, "head": git("rev-parse", "--short", "HEAD"), "dirty_files": [l[3:] for l in git("status", "--short", "--", "xgi").split("\n") if l.strip()][:20]}


def evidence_path(prop):
    """evidence/<prop>.json for runs against /repo; runs against a scratch worktree (XGI_REPO) write to
    out/evidence-scratch/ so that the committed evidence always describes /repo itself"""
    d = EVID if not os.environ.get("XGI_REPO") else os.path.join(OUT, "evidence-scratch")
    os.makedirs(d, exist_ok=True)
    return os.path.join(d, prop + ".json")


def write_evidence(prop, ev):
    with open(evidence_path(prop), "w") as f:
        json.dump(jsonable(ev), f, indent=1)


TRUSTED_COMMON = [
    "Lean 4.33.0 kernel; axioms admitted: propext, Classical.choice, Quot.sound only (checked by `#print axioms` on every theorem each run)",
    "hand-written Lean model of the Python code (modelled, not verified); tied to /repo by the correspondence check of this run (differential testing, not proof)",
    "Python semantics of dict/set/itertools.count, deepcopy, the harness canonicaliser and generators",
]


_RESTORE = []


def _restore_generated():
    """after a run against a scratch worktree: regenerate the tables from /repo so that the tracked Generated/*.lean files
    (and the next `lake build`) describe /repo again"""
    env = os.environ.pop("XGI_REPO", None)
    try:
        with _Lock():
            for t in _RESTORE:
                try:
                    t()
                except Exception:  # noqa
                    pass
    finally:
        if env is not None:
            os.environ["XGI_REPO"] = env


def build_and_audit(ctx, prop_mod, other_mods=(), audit_extra=(), translate=None):
    """(translate ->) lake build -> audit as ONE critical section under the project lock; records broken obligations on
    ctx; returns True if everything checks.  `translate` regenerates a Generated/*.lean table from the source tree."""
    with _Lock():
        if translate is not None:
            translate()
            if os.environ.get("XGI_REPO") and translate not in _RESTORE:
                import atexit
                if not _RESTORE:
                    atexit.register(_restore_generated)
                _RESTORE.append(translate)
        return _build_and_audit(ctx, prop_mod, other_mods, audit_extra)


def _build_and_audit(ctx, prop_mod, other_mods=(), audit_extra=()):
    ok, out = lean_build([prop_mod] + list(other_mods))
    if not ok:
        errs = re.findall(r"error: ([^\n]*)", out)
        ctx.broken.append(f"lake build {prop_mod} failed: " + "; ".join(errs[:5]))
        ctx.audit = dict(theorems=theorems_of(prop_mod) if os.path.exists(module_file(prop_mod)) else [], discharged=[], problems=errs[:10])
        return False
    ctx.audit = lean_audit(prop_mod, audit_extra)
    if ctx.audit["problems"] or len(ctx.audit["discharged"]) != len(ctx.audit["theorems"]):
        ctx.broken += ctx.audit["problems"] or ["audit: not all theorems discharged"]
        return False
    if ctx.tier == "thorough":
        # independent re-check of the compiled modules of this property (project-local import closure) by leanchecker
        mods = []
        for m in (prop_mod,) + tuple(audit_extra):
            import_closure(m, mods)
        try:
            p = run_proc(["lake", "env", "leanchecker"] + mods, cwd=LEAN, timeout=3000)
        except subprocess.TimeoutExpired:
            raise Infra("leanchecker timed out")
        ctx.extra["leanchecker"] = {"modules": len(mods), "exit": p.returncode, "output": (p.stdout + p.stderr)[-300:]}
        if p.returncode != 0:
            ctx.broken.append("leanchecker rejected the compiled modules: " + (p.stdout + p.stderr)[-300:])
            return False
    return True
