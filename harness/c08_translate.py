"""Translator for C08: enumerates the public API surface of xgi that takes a network first and regenerates
lean/XgiModel/Generated/ApiTable.lean.

Two independent classifications are recorded for every entry:
  * what the *documentation / signature* declares (an `in_place` parameter and its default; for module-level
    functions a first-parameter description or summary that says the argument is modified; for methods of the
    network classes: the method is disabled by `freeze()`, or has an `in_place` parameter, or is documented as a
    procedure - no "Returns"/"Yields" section -, or is a mutating protocol method such as `__setitem__`);
  * what a *static scan of the body* sees (AST): a call of a declared-mutator method on the first parameter /
    `self`, an assignment / deletion / augmented assignment through it, a mutating container method reached through
    one of its private attributes, or handing it to a declared in-place function with `in_place=True`.
The Lean theorem `C08_table_static_mutators_declared` (by `decide` over the generated table) says that the second
classification never finds a writer that the first does not declare; the harness then exercises every entry that is
not a declared mutator (and the `in_place=False` mode of those that have the flag) with before/after snapshots.

Enumeration is by runtime introspection of the imported package (which is `XGI_REPO` when `./check` is run with it),
the body scan parses the source files; nothing is hard-coded per function, so new functions are picked up.
"""
import ast
import importlib
import inspect
import os
import pkgutil
import re
import textwrap

from .core import LEAN

NETRE = re.compile(r"Hypergraph|SimplicialComplex|DiHypergraph|hypergraph|simplicial complex|higher-order network")
NETDESC = re.compile(r"\b(Hypergraph|SimplicialComplex|DiHypergraph) (object|instance)")
FACTORY = re.compile(r"constructor", re.I)
NETNAMES = {"H", "S", "SC", "DH", "net", "network", "hypergraph", "H1"}
NET_CLASSES = ("Hypergraph", "DiHypergraph", "SimplicialComplex")
MUTATING_PROTOCOL = {"__setitem__", "__delitem__", "__setstate__", "__init__", "__ilshift__", "__iadd__", "__ior__",
                     "__setattr__", "__delattr__"}
# read-only protocol methods that are part of the public behaviour of the classes (exercised by the harness)
QUERY_PROTOCOL = ["__contains__", "__getitem__", "__iter__", "__len__", "__lshift__", "__str__", "__repr__", "__call__",
                  "__eq__", "__and__", "__or__", "__sub__", "__xor__", "__rand__", "__ror__", "__rsub__", "__rxor__",
                  "__le__", "__lt__", "__ge__", "__gt__", "__ne__", "__hash__", "__bool__", "__reversed__"]
CONTAINER_MUTATORS = {"add", "remove", "discard", "update", "clear", "pop", "popitem", "setdefault", "append", "extend",
                      "insert", "sort", "reverse", "difference_update", "intersection_update",
                      "symmetric_difference_update", "__setitem__", "__delitem__"}
MODIFIES = re.compile(r"\bin[- ]?place\b|\bmodif(y|ies|ied)\b|\bto update\b|\bupdated\b|\bmutat", re.I)
# A callable is *documented as in-place* by what it IS, not by a stray word in its docstring (review 2, item 4):
#   - structurally: an `in_place` parameter, membership in the class's freeze() list, a mutating protocol method;
#   - by announcement: its NAME starts with a verb of change (set_node_attributes, merge_duplicate_edges, update, freeze, close,
#     the deprecated add_/remove_ aliases of SimplicialComplex), or it BEHAVES as a procedure (its body returns no value) and
#     the first word of its summary line is such a verb / for module-level functions the description of the first parameter
#     says that the argument is modified.
# A callable that returns a value and has none of the structural marks is a function of its argument and is run under the
# before/after comparison, whatever its docstring says; the presence or wording of a "Returns" section plays no role.
CHANGE_VERB = re.compile(r"^(add|adds|adding|remove|removes|removing|set|sets|setting|merge|merges|merging|update|updates|updating|"
                         r"freeze|freezes|freezing|close|closes|clear|clears|clearing|delete|deletes|del|discard|discards|pop|pops|"
                         r"insert|inserts|rename|renames|relabel|relabels|shuffle|shuffles|swap|swaps|rewire|rewires|prune|prunes|"
                         r"reset|resets|sort|sorts|reverse|reverses|extend|extends|append|appends|drop|drops|replace|replaces|"
                         r"move|moves|assign|assigns|attach|detach|fill|fills)$", re.I)


def name_announces_change(name):
    return bool(CHANGE_VERB.match(name.strip("_").split("_")[0]))


def summary_announces_change(doc):
    words = re.findall(r"[A-Za-z]+", (doc or "").strip().split("\n")[0])
    return bool(words) and bool(CHANGE_VERB.match(words[0]))


def is_procedure(f):
    """behavioural side of the classification, read from the body: no `return <value>` and no `yield` (the run-time cross-check
    in props/c08.py confirms it: a declared mutator whose completed calls return something is reported)"""
    fn = _fn_ast(f) if f is not None else None
    if fn is None:
        return False
    for node in ast.walk(fn):
        if isinstance(node, (ast.FunctionDef, ast.AsyncFunctionDef, ast.Lambda)) and node is not fn:
            continue
        if isinstance(node, (ast.Yield, ast.YieldFrom)):
            return False
        if isinstance(node, ast.Return) and node.value is not None and not (isinstance(node.value, ast.Constant) and node.value.value is None):
            return False
    return True


def repo_root():
    return os.environ.get("XGI_REPO", "/repo")


# ----------------------------------------------------------------------------- numpydoc helpers

def doc_sections(doc):
    """{section title: text} of a numpydoc docstring ('' -> summary/extended summary)"""
    out, cur, lines = {"": []}, "", (doc or "").split("\n")
    i = 0
    while i < len(lines):
        if i + 1 < len(lines) and re.match(r"^\s*-{3,}\s*$", lines[i + 1]) and lines[i].strip():
            cur = lines[i].strip()
            out[cur] = []
            i += 2
            continue
        out[cur].append(lines[i])
        i += 1
    return {k: "\n".join(v) for k, v in out.items()}


def doc_params(doc):
    """[(names, type text, description)] of the Parameters section"""
    sec = doc_sections(doc).get("Parameters", "")
    entries = []
    for line in sec.split("\n"):
        if not line.strip():
            continue
        m = re.match(r"^(\*{0,2}\w[\w, *]*?)\s*:\s*(.*)$", line) if not line.startswith((" ", "\t")) else None
        if m:
            entries.append([[n.strip().lstrip("*") for n in m.group(1).split(",")], m.group(2).strip(), []])
        elif re.match(r"^\*{0,2}\w+\s*$", line) and not line.startswith((" ", "\t")):
            entries.append([[line.strip().lstrip("*")], "", []])
        elif entries:
            entries[-1][2].append(line.strip())
    return [(n, t, " ".join(d)) for n, t, d in entries]


def has_returns(doc):
    s = doc_sections(doc)
    return any(k in s for k in ("Returns", "Yields", "Return", "Yield"))


def sig_params(f):
    try:
        return list(inspect.signature(f).parameters.values())
    except (TypeError, ValueError):
        return None


def in_place_of(params):
    for p in params or []:
        if p.name == "in_place":
            return True, bool(p.default) if p.default is not inspect.Parameter.empty else False
    return False, False


# ----------------------------------------------------------------------------- enumeration (runtime)

def _public_names(mod):
    if hasattr(mod, "__all__"):
        names = list(mod.__all__)
        if mod.__name__.startswith("xgi.stats."):
            # the stat dispatcher resolves `H.nodes.<name>` with getattr on these modules: every function defined there
            # is reachable by name, listed in __all__ or not
            names += [n for n, f in vars(mod).items() if inspect.isfunction(f) and f.__module__ == mod.__name__
                      and not n.startswith("_") and n not in names]
        return names
    if hasattr(mod, "__path__"):              # a package re-exporting with `from .x import *`
        return [n for n in dir(mod) if not n.startswith("_")]
    return [n for n in dir(mod) if not n.startswith("_") and getattr(getattr(mod, n), "__module__", None) == mod.__name__]


def public_functions(xgi):
    """{function object id: (public qualified name, function)} for every function exported by the package namespaces"""
    found = {}
    mods = [xgi]
    for info in pkgutil.walk_packages(xgi.__path__, "xgi."):
        if any(part.startswith("_") for part in info.name.split(".")):
            continue
        try:
            mods.append(importlib.import_module(info.name))
        except Exception:  # noqa  (optional dependency missing)
            continue
    mods.sort(key=lambda m: (m.__name__.count("."), m.__name__))        # shortest public path wins
    for mod in mods:
        for name in _public_names(mod):
            obj = getattr(mod, name, None)
            if not inspect.isfunction(obj) or not str(getattr(obj, "__module__", "")).startswith("xgi"):
                continue
            if name.startswith("_"):
                continue
            found.setdefault(id(obj), (mod.__name__ + "." + name, obj))
    return sorted(found.values(), key=lambda p: p[0])


def first_param_is_network(f):
    """(True/False, how) - decided from the signature and the numpydoc Parameters section"""
    ps = sig_params(f)
    if not ps:
        return False, "no-parameters"
    p0 = ps[0]
    if p0.kind in (p0.VAR_POSITIONAL, p0.VAR_KEYWORD, p0.KEYWORD_ONLY):
        return False, "no-positional"
    if p0.annotation is not inspect.Parameter.empty and NETRE.search(str(p0.annotation)):
        return True, "annotation"
    for names, typ, desc in doc_params(inspect.getdoc(f)):
        if p0.name in names:
            if FACTORY.search(typ):
                return False, "factory-parameter:" + typ[:40]        # create_using=… : what to build, not an input
            if NETRE.search(typ):
                return True, "doc-type"
            if (not typ and NETRE.search(desc)) or NETDESC.search(desc):
                return True, "doc-description"
            if p0.name in NETNAMES:
                return True, "name"
            return False, "doc-type:" + typ[:40]
    if p0.name in NETNAMES:
        return True, "name"
    return False, "undocumented:" + p0.name


def doc_first_param_classes(f):
    """network classes the numpydoc TYPE of the first parameter names ({'Hypergraph'} for `H : Hypergraph`); empty when the
    documentation does not name a class - the documented domain of the function"""
    ps = sig_params(f) or []
    if not ps:
        return set()
    for names, typ, desc in doc_params(inspect.getdoc(f)):
        if ps[0].name in names:
            return set(re.findall(r"\b(DiHypergraph|SimplicialComplex|Hypergraph)\b", typ))
    return set()


def doc_declares_mutation(f):
    """module-level function: the summary paragraph or the first parameter's entry says the argument is changed"""
    doc = inspect.getdoc(f) or ""
    ps = sig_params(f) or []
    if not is_procedure(f):
        return False                                   # it returns a value: a function of its argument, whatever the wording
    if name_announces_change(f.__name__) or summary_announces_change(doc):
        return True
    if ps:
        for names, typ, desc in doc_params(doc):
            if ps[0].name in names and MODIFIES.search(typ + " " + desc):
                return True
    return False


# ----------------------------------------------------------------------------- classes

def class_members(cls):
    """[(name, kind, underlying function or None)] : public methods / properties (MRO-resolved) + protocol methods"""
    out = []
    for name in sorted(set(dir(cls))):
        if name.startswith("_") and name not in QUERY_PROTOCOL and name not in MUTATING_PROTOCOL:
            continue
        try:
            raw = inspect.getattr_static(cls, name)
        except AttributeError:
            continue
        if name in ("__init__", "__setattr__", "__delattr__", "__hash__", "__eq__", "__ne__", "__repr__", "__str__",
                    "__le__", "__lt__", "__ge__", "__gt__") and getattr(raw, "__objclass__", None) is object:
            continue
        if isinstance(raw, property):
            out.append((name, "property", raw.fget))
        elif isinstance(raw, (classmethod, staticmethod)):
            out.append((name, "classmethod", raw.__func__))
        elif inspect.isfunction(raw):
            out.append((name, "method", raw))
        elif callable(raw) and not inspect.isclass(raw):
            out.append((name, "method", None))          # slot wrappers etc. (inherited from builtins)
    return out


def frozen_names(cls):
    """names assigned `frozen` inside the class's freeze() (AST), MRO-resolved"""
    for k in cls.__mro__:
        f = k.__dict__.get("freeze")
        if f is None:
            continue
        try:
            tree = ast.parse(textwrap.dedent(inspect.getsource(f)))
        except (OSError, TypeError, SyntaxError):
            return []
        names = []
        for st in ast.walk(tree):
            if isinstance(st, ast.Assign) and isinstance(st.value, ast.Name) and st.value.id == "frozen":
                for t in st.targets:
                    if isinstance(t, ast.Attribute) and isinstance(t.value, ast.Name) and t.value.id == "self":
                        names.append(t.attr)
        return names
    return []


# ----------------------------------------------------------------------------- static scan of bodies

def _root(node):
    """(root Name id, chain of attribute names / '[]') of an attribute/subscript/call chain, or (None, [])"""
    chain = []
    while True:
        if isinstance(node, ast.Attribute):
            chain.append(node.attr); node = node.value
        elif isinstance(node, ast.Subscript):
            chain.append("[]"); node = node.value
        elif isinstance(node, ast.Call):
            chain.append("()"); node = node.func
        elif isinstance(node, ast.Name):
            return node.id, chain[::-1]
        else:
            return None, []


def _fn_ast(f):
    try:
        tree = ast.parse(textwrap.dedent(inspect.getsource(f)))
    except (OSError, TypeError, SyntaxError, IndentationError):
        return None
    for n in tree.body:
        if isinstance(n, (ast.FunctionDef, ast.AsyncFunctionDef)):
            return n
    return None


def scan_writes(f, pname, mutator_methods, inplace_functions, rebinding_counts, self_calls=None):
    """list of source fragments through which the body may write to the object bound to `pname`"""
    fn = _fn_ast(f)
    if fn is None:
        return ["<no source>"] if f is not None else []
    hits = []
    # statements after an unconditional top-level rebinding `pname = …` no longer refer to the argument
    live_until = None
    for i, st in enumerate(fn.body):
        if isinstance(st, ast.Assign) and any(isinstance(t, ast.Name) and t.id == pname for t in st.targets):
            live_until = i
            break
    body = fn.body if live_until is None else fn.body[:live_until]

    def targets(t):
        if isinstance(t, (ast.Tuple, ast.List)):
            for x in t.elts:
                yield from targets(x)
        else:
            yield t

    # local names bound to one of the argument's own containers (`ms = H._edge[e]`, `tbl = self._node_attr`, also through
    # another such name: `members = H._edge; fresh = members[e]`, and in tuple assignments `a, b = H._node, H._edge`): a write
    # through such a name is a write to the argument.  Only plain chains of private attributes / subscripts count (a call
    # result such as `H.edges.members(e)` or `set(link)` is a new object unless the callee itself is at fault).  The scan
    # follows the statements in source order: a name that is rebound to something else (`link = set(link)`) stops being an
    # alias from there on.
    def alias_source(value, aliases):
        r, chain = _root(value)
        if r == pname and chain and "()" not in chain and chain[0].startswith("_"):
            return ast.unparse(value)
        if r in aliases and "()" not in chain and (chain or isinstance(value, ast.Name)):
            return f"{ast.unparse(value)} via {aliases[r]}"
        return None

    ordered = sorted((n for st in body for n in ast.walk(st) if hasattr(n, "lineno")),
                     key=lambda n: (n.lineno, n.col_offset))
    aliases = {}
    for node in ordered:
        # writes through the aliases known at this point
        if aliases:
            if isinstance(node, ast.AugAssign) and isinstance(node.target, ast.Name) and node.target.id in aliases \
                    and isinstance(node.op, (ast.BitOr, ast.BitAnd, ast.Sub, ast.BitXor, ast.Add)):
                hits.append(f"{node.target.id} (= {aliases[node.target.id]}) {type(node.op).__name__}=")
            tga = []
            if isinstance(node, ast.Assign):
                tga = [x for t in node.targets for x in targets(t)]
            elif isinstance(node, ast.AugAssign):
                tga = [node.target]
            elif isinstance(node, ast.Delete):
                tga = list(node.targets)
            for t in tga:
                r, chain = _root(t)
                if r in aliases and chain:
                    hits.append(f"{ast.unparse(t)} (alias of {aliases[r]})")
            if isinstance(node, ast.Call):
                r, chain = _root(node.func)
                if r in aliases and chain and chain[-1] in CONTAINER_MUTATORS and "()" not in chain[:-1]:
                    hits.append(f"{ast.unparse(node.func)}() (alias of {aliases[r]})")
        # bindings made by this statement
        if isinstance(node, ast.Assign):
            for t in node.targets:
                pairs = []
                if isinstance(t, ast.Name):
                    pairs = [(t, node.value)]
                elif isinstance(t, (ast.Tuple, ast.List)) and isinstance(node.value, (ast.Tuple, ast.List)) \
                        and len(t.elts) == len(node.value.elts):
                    pairs = [(a, b) for a, b in zip(t.elts, node.value.elts) if isinstance(a, ast.Name)]
                elif isinstance(t, (ast.Tuple, ast.List)):
                    pairs = [(a, None) for a in t.elts if isinstance(a, ast.Name)]
                for a, b in pairs:
                    src = alias_source(b, aliases) if b is not None else None
                    if src is not None and a.id != pname:
                        aliases[a.id] = src
                    else:
                        aliases.pop(a.id, None)
        elif isinstance(node, (ast.For, ast.AsyncFor)):
            for a in targets(node.target):
                if isinstance(a, ast.Name):
                    aliases.pop(a.id, None)

    for st in body:
        for node in ast.walk(st):
            tg = []
            if isinstance(node, ast.Assign):
                tg = [x for t in node.targets for x in targets(t)]
            elif isinstance(node, (ast.AugAssign, ast.AnnAssign)):
                tg = [node.target]
            elif isinstance(node, ast.Delete):
                tg = list(node.targets)
            for t in tg:
                r, chain = _root(t)
                if r == pname and chain:
                    if len(chain) == 1 and chain[0] != "[]" and not rebinding_counts:
                        continue                 # a view/stat object rebinding one of its own fields
                    hits.append(ast.unparse(t))
            if isinstance(node, ast.Call):
                r, chain = _root(node.func)
                if r == pname and chain:
                    meth = chain[-1]
                    if len(chain) == 1 and meth in mutator_methods:
                        hits.append(f"{pname}.{meth}()")
                    elif len(chain) == 1 and self_calls is not None:
                        self_calls.add(meth)
                    elif len(chain) >= 2 and meth in CONTAINER_MUTATORS | mutator_methods and \
                            (chain[0].startswith("_") or chain[0] == "[]"):
                        hits.append(ast.unparse(node.func) + "()")
                # the object handed to a declared in-place function
                if isinstance(node.func, (ast.Name, ast.Attribute)):
                    callee = node.func.id if isinstance(node.func, ast.Name) else node.func.attr
                    if callee in inplace_functions and node.args and isinstance(node.args[0], ast.Name) \
                            and node.args[0].id == pname:
                        needs_flag = inplace_functions[callee]
                        flag = next((k.value for k in node.keywords if k.arg == "in_place"), None)
                        if not needs_flag or (flag is not None and not (isinstance(flag, ast.Constant) and flag.value is False)):
                            hits.append(f"{callee}({pname}, …)")
    return hits


# ----------------------------------------------------------------------------- option values spelled in the body

def option_literals(f):
    """{parameter name: [literal values the body compares that parameter with]} - `if weights == "normalized"`,
    `if kind not in ("uniform", "top-2")`, `match mode: case "eq"` ... : the enumerated option values of a function,
    read from its own source, so that the harness calls every one of them (new options included automatically)"""
    fn = _fn_ast(f) if f is not None else None
    if fn is None:
        return {}
    params = {a.arg for a in fn.args.posonlyargs + fn.args.args + fn.args.kwonlyargs}
    out = {}

    def lit(c):
        if isinstance(c, ast.Constant):
            return [c.value]
        if isinstance(c, (ast.Tuple, ast.List, ast.Set)) and all(isinstance(x, ast.Constant) for x in c.elts):
            return [x.value for x in c.elts]
        if isinstance(c, ast.UnaryOp) and isinstance(c.op, ast.USub) and isinstance(c.operand, ast.Constant) \
                and isinstance(c.operand.value, (int, float)):
            return [-c.operand.value]
        return []

    def add(name, vals):
        for v in vals:
            if v is None or isinstance(v, (bool, str)) or (isinstance(v, (int, float)) and abs(v) <= 10):
                if not any(type(v) is type(w) and v == w for w in out.setdefault(name, [])):
                    out[name].append(v)

    for node in ast.walk(fn):
        if isinstance(node, ast.Compare):
            sides = [node.left] + list(node.comparators)
            for a, b in zip(sides, sides[1:]):
                if isinstance(a, ast.Name) and a.id in params:
                    add(a.id, lit(b))
                if isinstance(b, ast.Name) and b.id in params:
                    add(b.id, lit(a))
        elif isinstance(node, ast.Match) and isinstance(node.subject, ast.Name) and node.subject.id in params:
            for case in node.cases:
                for pat in ast.walk(case.pattern):
                    if isinstance(pat, ast.MatchValue):
                        add(node.subject.id, lit(pat.value))
                    elif isinstance(pat, ast.MatchSingleton):
                        add(node.subject.id, [pat.value])
    return out


# ----------------------------------------------------------------------------- the table

EXCLUDED = []      # module-level public functions NOT recognised as taking a network first, with the reason (filled by extract)


def extract():
    import xgi
    from xgi.core import views
    import xgi.stats as xstats

    net_classes = [getattr(xgi, c) for c in NET_CLASSES]
    view_classes = [c for c in vars(views).values() if inspect.isclass(c) and c.__module__ == views.__name__]
    stat_classes = [c for c in vars(xstats).values() if inspect.isclass(c) and c.__module__ == xstats.__name__]

    entries = []
    # --- methods of the network classes: documentation-side classification first (needed by the scans)
    declared = {}
    for cls in net_classes:
        fz = set(frozen_names(cls))
        for name, kind, fn in class_members(cls):
            ps = sig_params(fn) if fn else None
            hip, dip = in_place_of(ps)
            doc = inspect.getdoc(fn) if fn else ""
            if name.startswith("__"):
                dm = name in MUTATING_PROTOCOL
            else:
                dm = name in fz or hip or (kind == "method" and (name_announces_change(name) or
                                                                   (is_procedure(fn) and summary_announces_change(doc))))
            declared[(cls.__name__, name)] = dict(kind=kind, fn=fn, hip=hip, dip=dip, doc_mut=dm, frozen_list=name in fz)
    mutator_methods = {n for (c, n), d in declared.items() if d["doc_mut"]}

    # --- module-level functions
    fns = []
    EXCLUDED.clear()
    for qn, f in public_functions(xgi):
        isnet, how = first_param_is_network(f)
        if not isnet:
            EXCLUDED.append(dict(name=qn, fn=f, how=how))
            continue
        hip, dip = in_place_of(sig_params(f))
        fns.append(dict(name=qn, kind="function", fn=f, hip=hip, dip=dip, doc_mut=doc_declares_mutation(f), how=how,
                        p0=sig_params(f)[0].name))
    inplace_functions = {e["fn"].__name__: e["hip"] for e in fns if e["hip"] or e["doc_mut"]}
    for e in fns:
        e["writes"] = scan_writes(e["fn"], e["p0"], mutator_methods, inplace_functions, rebinding_counts=True)
    entries += fns

    # --- network class methods: scan, closing over self.m() calls
    for cls in net_classes:
        rows = {}
        for (c, name), d in declared.items():
            if c != cls.__name__:
                continue
            calls = set()
            w = scan_writes(d["fn"], "self", mutator_methods, inplace_functions, True, calls) if d["fn"] else []
            rows[name] = dict(name=f"{c}.{name}", kind=d["kind"], fn=d["fn"], hip=d["hip"], dip=d["dip"], doc_mut=d["doc_mut"],
                              how="frozen-list" if d["frozen_list"] else "doc", writes=w, calls=calls)
        helpers = {}

        def info(callee):
            """scan record of a method / private helper of the class reached through `self.callee(…)`"""
            if callee in rows:
                return rows[callee]
            if callee in helpers:
                return helpers[callee]
            try:
                raw = inspect.getattr_static(cls, callee)
            except AttributeError:
                return None
            if not inspect.isfunction(raw):
                return None
            calls = set()
            helpers[callee] = dict(writes=scan_writes(raw, "self", mutator_methods, inplace_functions, True, calls), calls=calls)
            return helpers[callee]

        changed = True
        while changed:                                 # close over self.m() calls (private helpers included)
            changed = False
            for name, r in list(rows.items()) + list(helpers.items()):
                for callee in sorted(r["calls"]):
                    known = len(helpers)
                    tgt = info(callee)
                    changed = changed or len(helpers) != known
                    tag = f"via self.{callee}()"
                    if tgt and tgt["writes"] and tag not in r["writes"]:
                        r["writes"].append(tag)
                        changed = True
        entries += [r for n, r in sorted(rows.items())]

    # --- views and stats: read-only surfaces as a whole
    for cls in view_classes + stat_classes:
        for name, kind, fn in class_members(cls):
            if name in MUTATING_PROTOCOL:
                continue
            hip, dip = in_place_of(sig_params(fn) if fn else None)
            w = []
            if fn is not None and str(getattr(fn, "__module__", "")).startswith("xgi"):
                w = scan_writes(fn, "self", mutator_methods, inplace_functions, rebinding_counts=False)
            entries.append(dict(name=f"{cls.__name__}.{name}", kind=kind, fn=fn, hip=hip, dip=dip, doc_mut=False,
                                how="view/stat class", writes=w))
    return entries


def table(entries=None):
    """plain-data form: [{name, kind, has_in_place, default_in_place, doc_mutator, ast_writes, writes, how}]"""
    entries = entries if entries is not None else extract()
    return [dict(name=e["name"], kind=e["kind"], has_in_place=bool(e["hip"]), default_in_place=bool(e["dip"]),
                 doc_mutator=bool(e["doc_mut"]), ast_writes=bool(e["writes"]), writes=list(e["writes"])[:6],
                 how=e.get("how", "")) for e in entries]


def render(tab):
    b = lambda x: "true" if x else "false"
    lines = ["/- GENERATED by harness/c08_translate.py from the public API of xgi (runtime introspection + AST scan of the",
             "   bodies) — do not edit.  entries: (name, hasInPlaceParam, defaultInPlace, documentedMutator, astWritesArgument);",
             "   functions = module-level callables whose first parameter is a network; methods = public methods, properties and",
             "   protocol methods of the three network classes, the views and the stat objects. -/",
             "namespace Xgi.Generated.ApiTable",
             "structure Entry where",
             "  name : String", "  hasInPlace : Bool", "  defaultInPlace : Bool", "  docMutator : Bool", "  astWrites : Bool",
             "",
             "def functions : List Entry := ["]
    f = [e for e in tab if e["kind"] == "function"]
    m = [e for e in tab if e["kind"] != "function"]
    ent = lambda e: f'  ⟨"{e["name"]}", {b(e["has_in_place"])}, {b(e["default_in_place"])}, {b(e["doc_mutator"])}, {b(e["ast_writes"])}⟩'
    lines.append(",\n".join(ent(e) for e in f) + "]")
    lines.append("")
    lines.append("def methods : List Entry := [")
    lines.append(",\n".join(ent(e) for e in m) + "]")
    lines += ["",
              "/-- (name, hasInPlaceParam, defaultInPlace) of every module-level function taking a network first -/",
              "def fns : List (String × Bool × Bool) := functions.map (fun e => (e.name, e.hasInPlace, e.defaultInPlace))",
              "end Xgi.Generated.ApiTable"]
    return "\n".join(lines) + "\n"


def write(entries=None):
    tab = table(entries)
    path = os.path.join(LEAN, "XgiModel", "Generated", "ApiTable.lean")
    body = render(tab)
    if not os.path.exists(path) or open(path).read() != body:
        os.makedirs(os.path.dirname(path), exist_ok=True)
        with open(path, "w") as f:
            f.write(body)
    return tab


if __name__ == "__main__":
    for e in write():
        print(("F " if e["kind"] == "function" else "M ") + e["name"], "inplace" if e["has_in_place"] else "",
              "DOC-MUT" if e["doc_mutator"] else "", "AST:" + ";".join(e["writes"]) if e["ast_writes"] else "", "[" + e["how"] + "]")
