"""./check <Cxx> [--tier quick|thorough] [--replay file]"""
import argparse
import importlib
import os
import sys
import traceback

sys.path.insert(0, os.path.dirname(os.path.dirname(os.path.abspath(__file__))))
os.environ.setdefault("MPLBACKEND", "Agg")
from harness.core import Ctx, Infra  # noqa: E402


def main():
    ap = argparse.ArgumentParser()
    ap.add_argument("prop")
    ap.add_argument("--tier", default=os.environ.get("VERIF_TIER", "quick"), choices=["quick", "thorough"])
    ap.add_argument("--replay", default=None)
    a = ap.parse_args()
    seed = int(os.environ.get("VERIF_SEED", "0") or 0)
    prop = a.prop.upper()
    try:
        mod = importlib.import_module(f"harness.props.{prop.lower()}")
    except ModuleNotFoundError as e:
        print(f"no check for {prop}: {e}")
        return 2
    ctx = Ctx(prop, a.tier, seed)
    try:
        if a.replay:
            return mod.replay(ctx, a.replay)
        return mod.run(ctx)
    except Infra as e:
        print(f"INFRA-ERROR {prop}: {e}")
        return 2
    except Exception as e:  # noqa
        traceback.print_exc()
        # Safety net: if the innermost frame of the exception is inside the xgi package under test, the library raised
        # something the harness did not anticipate at a call the harness makes on every run of the unchanged tree.
        # That is a failure of the implementation on this run's inputs, not an infrastructure problem: report it,
        # replayable by re-running the check with the same seed.
        tb = traceback.extract_tb(e.__traceback__)
        import xgi
        root = os.path.dirname(os.path.abspath(xgi.__file__))
        if tb and os.path.abspath(tb[-1].filename).startswith(root):
            import json
            from harness.core import OUT
            d = os.path.join(OUT, "replays", prop)
            os.makedirs(d, exist_ok=True)
            path = os.path.join(d, "uncaught-library-exception.json")
            json.dump({"property": prop, "kind": "concrete", "seed": seed, "site": f"{os.path.relpath(tb[-1].filename, root)}:{tb[-1].name}",
                       "failure_class": "uncaught-" + type(e).__name__, "detail": str(e)[:500],
                       "traceback": traceback.format_exc()[-4000:],
                       "how": f"VERIF_SEED={seed} ./check {prop} --tier {a.tier}   (the library raised inside a call the harness makes on every run)"},
                      open(path, "w"), indent=1)
            from harness.core import write_evidence, repo_provenance
            audit = ctx.audit or {"theorems": [], "discharged": []}
            write_evidence(prop, {"property_id": prop, "tier": a.tier, "seed": seed, "level": "proof",
                                  "wall_s": round(__import__("time").time() - ctx.t0, 2), "violations": 1,
                                  "coverage": {"obligations": len(audit["theorems"]), "discharged": len(audit["discharged"]),
                                               "checker_cmd": f"cd lean && lake build XgiModel.Props.{prop}", "trusted_base": [],
                                               "evaluations": ctx.evaluations, "distinct_nontrivial": len(ctx.nontrivial),
                                               "traces_validated_against_impl": ctx.traces, "samples": ctx.samples or [traceback.format_exc()[-800:]],
                                               "aborted": True, "repo": repo_provenance(),
                                               "explanation": "run ABORTED: the implementation raised an exception the harness does not "
                                                              "anticipate on the unchanged tree; the counts are those measured up to the abort"}})
            print(f"VIOLATION property={prop} replay={path}")
            print(f"  site={tb[-1].name} class=uncaught-{type(e).__name__} detail={str(e)[:200]}")
            return 1
        print(f"INFRA-ERROR {prop}: harness exception")
        return 2


if __name__ == "__main__":
    sys.exit(main())
