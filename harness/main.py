"""./check <Cxx> [--tier quick|thorough] [--replay file]"""
import argparse
import importlib
import os
import sys
import traceback

sys.path.insert(0, os.path.dirname(os.path.dirname(os.path.abspath(__file__))))
os.environ.setdefault("MPLBACKEND", "Agg")
from harness.core import Ctx, Infra  # noqa: E402


def main():
    ap = argparse.ArgumentParser()
    ap.add_argument("prop")
    ap.add_argument("--tier", default=os.environ.get("VERIF_TIER", "quick"), choices=["quick", "thorough"])
    ap.add_argument("--replay", default=None)
    a = ap.parse_args()
    seed = int(os.environ.get("VERIF_SEED", "0") or 0)
    prop = a.prop.upper()
    try:
        mod = importlib.import_module(f"harness.props.{prop.lower()}")
    except ModuleNotFoundError as e:
        print(f"no check for {prop}: {e}")
        return 2
    ctx = Ctx(prop, a.tier, seed)
    try:
        if a.replay:
            return mod.replay(ctx, a.replay)
        return mod.run(ctx)
    except Infra as e:
        print(f"INFRA-ERROR {prop}: {e}")
        return 2
    except Exception:  # noqa
        traceback.print_exc()
        print(f"INFRA-ERROR {prop}: harness exception")
        return 2


if __name__ == "__main__":
    sys.exit(main())
