"""C04 (provenance tie): the converters / copy / dual of the implementation against their models in
lean/XgiModel/Core/HGConv.lean (compositions of the public calls of the Hypergraph model).  The whole derived network
(ids in order, members, memberships, attributes, net attributes, counter) is compared, so a converter that builds its
result out of band (resets or forgets the counter, drops ids, reorders) breaks this correspondence."""
import copy
import warnings

import numpy as np
import xgi

from . import hg as MH
from .core import Infra, canon, enc_id, idkey, run_driver
from .sm import project

FIELDS = ["out", "nodes", "edges", "mem", "memb", "nattr", "eattr", "nattrK", "eattrK", "net", "uid", "frozen"]
KINDS = ["copy", "dual", "to_hypergraph", "to_hypergraph_fn", "edge_list", "edge_list_ctor", "edge_dict", "edge_dict_ctor",
         "bipartite", "incidence", "incidence_ctor"]


def _ids(rng):
    pool = rng.choice([[0, 1, 2, 3, 4], [1, 2, 3, "a", "b"], ["a", "b", "c", "d"], [5, 3, 0, 7, 2], [0, 1, 2, 3, None]])
    return pool


def gen_data(rng, kind):
    """data of a data-based converter: (request-fields, python-argument-builder)"""
    pool = _ids(rng)
    if kind.startswith("edge_list"):
        k = rng.randint(0, 5)
        edges = [[rng.choice(pool) for _ in range(rng.randint(0 if i else 1, 4))] for i in range(k)]
        return {"kind": "edge_list", "edges": [[enc_id(x) for x in e] for e in edges]}, edges
    if kind.startswith("edge_dict"):
        k = rng.randint(0, 5)
        eids = rng.choice([[0, 1, 2, 3, 4], [4, 2, 0, 9, 1], ["x", "y", 0, 1, "z"], [7, 7, 3, 3, 1]])
        d = {}
        for i in range(k):
            d.setdefault(eids[i], [rng.choice(pool) for _ in range(rng.randint(0, 4))])
        return {"kind": "edge_dict", "items": [[enc_id(e), [enc_id(x) for x in ms]] for e, ms in d.items()]}, d
    if kind == "bipartite":
        k = rng.randint(1, 8)
        eids = rng.choice([[0, 1, 2], [3, 0, "e"], ["x", "y", "z"], [2, 5, None]])
        pairs = [(rng.choice(pool), rng.choice(eids)) for _ in range(k)]
        return {"kind": "bipartite", "pairs": [[enc_id(n), enc_id(e)] for n, e in pairs]}, pairs
    if kind.startswith("incidence"):
        n, m = rng.randint(1, 4), rng.randint(1, 4)
        M = np.array([[rng.choice([0, 0, 1, 1, 2]) for _ in range(m)] for _ in range(n)])
        nl = el = None
        if kind == "incidence":
            if rng.random() < 0.5:
                nl = rng.sample(["a", "b", "c", "d", 0, 1, 7], n if rng.random() < 0.85 else n + 1)
            if rng.random() < 0.5:
                el = rng.sample(["e0", "e1", 5, 3, 2, 9], m if rng.random() < 0.85 else max(0, m - 1))
        from scipy.sparse import coo_array
        I = coo_array(M)
        entries = [[int(r), int(c)] for r, c in zip(I.row, I.col)]
        req = {"kind": "incidence", "n": n, "m": m, "entries": entries,
               "nodelabels": None if nl is None else [enc_id(x) for x in nl],
               "edgelabels": None if el is None else [enc_id(x) for x in el]}
        return req, (M, nl, el)
    raise ValueError(kind)


def derive_impl(H, kind, arg):
    if kind == "copy":
        return H.copy()
    if kind == "dual":
        return H.dual()
    if kind == "to_hypergraph":
        return xgi.Hypergraph(H)
    if kind == "to_hypergraph_fn":
        return xgi.to_hypergraph(H)
    if kind == "edge_list":
        return xgi.from_hyperedge_list(copy.deepcopy(arg))
    if kind == "edge_list_ctor":
        return xgi.Hypergraph(copy.deepcopy(arg))
    if kind == "edge_dict":
        return xgi.from_hyperedge_dict(copy.deepcopy(arg))
    if kind == "edge_dict_ctor":
        return xgi.Hypergraph(copy.deepcopy(arg))
    if kind == "bipartite":
        return xgi.from_bipartite_edgelist(list(arg))
    if kind == "incidence":
        M, nl, el = arg
        return xgi.from_incidence_matrix(M, nodelabels=nl, edgelabels=el)
    if kind == "incidence_ctor":
        return xgi.Hypergraph(arg[0])
    raise ValueError(kind)


MODEL_KIND = {"to_hypergraph_fn": "to_hypergraph", "edge_list_ctor": "edge_list", "edge_dict_ctor": "edge_dict",
              "incidence_ctor": "incidence"}


def sort_nodes(snap):
    """`dual()` adds the new nodes in the iteration order of membership sets: compare the node-indexed parts unordered"""
    s = dict(snap)
    if isinstance(s.get("nodes"), list):
        s["nodes"] = sorted(s["nodes"], key=idkey)
        for k in ("memb", "nattr"):
            if isinstance(s.get(k), list):
                s[k] = sorted(s[k], key=lambda p: idkey(p[0]))
    return s


def observe(H, kind, arg):
    with warnings.catch_warnings(record=True) as w:
        warnings.simplefilter("always")
        exc = D = None
        try:
            D = derive_impl(H, kind, arg)
        except Exception as e:  # noqa
            exc = e
    out = MH.outcome_of(exc, any(issubclass(x.category, UserWarning) for x in w))
    if exc is not None or D is None:
        return {"out": out if exc is not None else "returned-none"}, exc
    return MH.snapshot(D, out), None


def run_conv(ctx, n):
    """returns the list of disagreements (kind, ops, request, fields, model, impl)"""
    rng = ctx.rng
    reqs, index, cases = [], [], []
    for ci in range(n):
        ops = MH.gen_history(rng, 0, 12, {"add_edge": 30, "add_edges_from": 20, "add_node": 8, "add_node_to_edge": 8,
                                          "remove_edge": 8, "remove_node": 5, "set_node_attributes": 5,
                                          "set_edge_attributes": 5, "set_net_attr": 4, "merge_duplicate_edges": 3,
                                          "freeze": 1})
        H = MH.factory()
        for op in ops:
            MH.apply_impl(H, op)
        reqs.append({"op": "reset"}); index.append(None)
        for op in ops:
            reqs.append(MH.to_request(op)); index.append(None)
        for kind in KINDS:
            if kind in ("copy", "dual", "to_hypergraph", "to_hypergraph_fn"):
                req, arg = {"kind": kind}, None
            else:
                req, arg = gen_data(rng, kind)
            req = dict(req, op="derive", kind=MODEL_KIND.get(kind, req["kind"]))
            before = MH.snapshot(H, "ok")
            snap, exc = observe(H, kind, arg)
            ctx.evaluations += 1
            ctx.stats["derive:" + kind] += 1
            ctx.stats["derive-out:" + snap["out"]] += 1
            if MH.snapshot(H, "ok") != before:
                ctx.violation(kind, "provenance-mutated-source", {"class": "Hypergraph", "ops": ops, "derive": kind},
                              detail=f"{kind} changed the network it was derived from")
            if "edges" in snap and isinstance(snap.get("uid"), int):
                bad = [e for e in snap["edges"] if isinstance(e, int) and not isinstance(e, bool) and e >= snap["uid"]]
                if bad:
                    ctx.violation(kind, "counter-not-above-ids", {"class": "Hypergraph", "ops": ops, "derive": req},
                                  detail=f"{kind}: next automatic id {snap['uid']} <= existing integer ids {bad}")
                elif len(snap["edges"]) >= 2:
                    ctx.nontrivial.add(("conv", kind, repr(snap["edges"]), snap["uid"]))
            reqs.append(req); index.append(len(cases))
            cases.append((kind, ops, req, snap))
    resps = run_driver("HG", reqs)
    dis = []
    for r, ix in zip(resps, index):
        if r.get("out") == "bad-op":
            raise Infra(f"model rejected a request as bad-op (harness defect): {str(reqs[resps.index(r)])[:300]}")
        if ix is None:
            continue
        kind, ops, req, im = cases[ix]
        if r.get("out") == "unmodelled":
            ctx.stats["derive-unmodelled"] += 1
            continue
        m = canon(r)
        ctx.traces += 1
        if m.get("out", "").startswith("err") or "edges" not in im:
            m, im = {"out": m.get("out")}, {"out": im.get("out")}
            fields = ["out"]
        else:
            fields = FIELDS
            if kind == "dual":
                m, im = sort_nodes(m), sort_nodes(im)
        m, im = project(m, fields), project(im, fields)
        if m != im:
            diff = [k for k in fields if m.get(k) != im.get(k)]
            dis.append((kind, ops, req, diff, {k: m.get(k) for k in diff}, {k: im.get(k) for k in diff}))
    for kind, ops, req, diff, m, im in dis[:50]:
        ctx.stats["disagree:derive:" + kind] += 1
        ctx.extra.setdefault("disagreements", [])
        if len(ctx.extra["disagreements"]) < 5:
            ctx.extra["disagreements"].append({"ops": [MH.to_request(o) for o in ops], "derive": req, "fields": diff,
                                               "model": m, "impl": im})
    if dis:
        ctx.broken.append("correspondence HGConv~converters/copy/dual: model and implementation differ for "
                          f"{sorted({d[0] for d in dis})}")
    return dis


def replay_conv(ctx, case, path):
    """re-run a stored (history, provenance) case on the current tree: source untouched, counter above the integer ids"""
    from .core import dec_id
    H = MH.factory()
    for op in case["ops"]:
        MH.apply_impl(H, copy.deepcopy(op))
    req = case["derive"]
    kind = req if isinstance(req, str) else req["kind"]
    arg = None
    if isinstance(req, dict):
        if kind == "edge_list":
            arg = [[dec_id(x) for x in e] for e in req["edges"]]
        elif kind == "edge_dict":
            arg = {dec_id(e): [dec_id(x) for x in ms] for e, ms in req["items"]}
        elif kind == "bipartite":
            arg = [(dec_id(n), dec_id(e)) for n, e in req["pairs"]]
        elif kind == "incidence":
            M = np.zeros((req["n"], req["m"]), dtype=int)
            for r, c in req["entries"]:
                M[r, c] = 1
            arg = (M, None if req["nodelabels"] is None else [dec_id(x) for x in req["nodelabels"]],
                   None if req["edgelabels"] is None else [dec_id(x) for x in req["edgelabels"]])
    before = MH.snapshot(H, "ok")
    snap, exc = observe(H, kind, arg)
    fails = []
    if MH.snapshot(H, "ok") != before:
        fails.append(("provenance-mutated-source", f"{kind} changed the network it was derived from"))
    if "edges" in snap and isinstance(snap.get("uid"), int):
        bad = [e for e in snap["edges"] if isinstance(e, int) and not isinstance(e, bool) and e >= snap["uid"]]
        if bad:
            fails.append(("counter-not-above-ids", f"{kind}: next automatic id {snap['uid']} <= existing integer ids {bad}"))
    if fails:
        print(f"VIOLATION property=C04 replay={path}")
        print(f"  reproduced: {fails[0][0]}: {fails[0][1]}")
        return 1
    print(f"replay {path}: not reproduced on the current tree")
    return 0
