"""C08 machinery: input networks (replayable specs), the deep before/after snapshot, the reachability walk used for
the aliasing check, per-parameter-name argument generators and the encoding of calls as replayable JSON."""
import copy
import itertools
import json
import os
import signal
import warnings

import numpy as np

import xgi

SENT = "__c08_sentinel__"
PROBE = "__c08_probe__"


# ----------------------------------------------------------------------------- network specs (JSON) -> real networks

def _dec(v):
    """JSON attribute value -> Python value ({"$set": [...]} is a set, {"$tuple": [...]} a tuple)"""
    if isinstance(v, dict):
        if set(v) == {"$set"}:
            return {_dec(x) for x in v["$set"]}
        if set(v) == {"$tuple"}:
            return tuple(_dec(x) for x in v["$tuple"])
        return {k: _dec(x) for k, x in v.items()}
    if isinstance(v, list):
        return [_dec(x) for x in v]
    return v


NESTED = [
    {"w": 2, "tags": [1, [2, 3]], "meta": {"k": [1], "z": {"q": 0}}},
    {"weight": 1.5, "tags": ["x"], "color": "r"},
    {"weight": 2, "w": 1},
    {"w": 1, "s": {"$set": [1, 2]}},
    {"b": 1, "a": 2},                 # key order b, a (not sorted): dict order must survive
    {},
]


class MyH(xgi.Hypergraph):
    """trivial subclasses: the statement quantifies over all input networks, and `type(H) == Hypergraph` idioms exist"""
    _c08_base = "Hypergraph"


class MyD(xgi.DiHypergraph):
    _c08_base = "DiHypergraph"


class MyS(xgi.SimplicialComplex):
    _c08_base = "SimplicialComplex"


FAMILY_CLASSES = {"MyH": MyH, "MyD": MyD, "MyS": MyS}


def base_class_name(net):
    return getattr(type(net), "_c08_base", type(net).__name__)


def _decid(x):
    """JSON ID -> Python ID ({"$tuple": [...]} is a tuple; a replay file cannot hold tuples)"""
    if isinstance(x, dict) and set(x) == {"$tuple"}:
        return tuple(_decid(y) for y in x["$tuple"])
    if isinstance(x, list):
        return [_decid(y) for y in x]
    return x


def spec(cls, nodes, edges, net=None, frozen=False, label=""):
    return {"cls": cls, "nodes": nodes, "edges": edges, "net": net or {}, "frozen": frozen, "label": label}


def fixed_specs():
    A = NESTED
    hg_nice = spec("Hypergraph", [[i, {"weight": i + 1}] for i in range(6)],
                   [[[0, 1, 2], "$auto", {"weight": 2}], [[2, 3, 4], "$auto", {"weight": 1}], [[4, 5, 0], "$auto", {"weight": 3}],
                    [[1, 3, 5], "$auto", {"weight": 1}]], {"name": "nice"}, label="hg-nice")
    hg_messy = spec("Hypergraph", [[0, A[0]], ["a", A[1]], [5, A[4]], [7, {}], ["iso", A[3]]],
                    [[[0, "a"], 0, A[2]], [[0, 5, 7], "e", A[0]], [[], 3, {}], [["a"], 9, A[4]], [["a", 0], 4, A[1]],
                     [[5, 7], "$auto", {}]],
                    {"name": "messy", "info": {"l": [1, {"d": [2]}]}, "z": 0}, label="hg-messy")
    hg_gaps = spec("Hypergraph", [[i, {"weight": 1}] for i in (1, 2, 3, 4, 5, 6, 10)],
                   [[[1, 2], "$auto", {"weight": 1}], [[2, 3, 4], "$auto", A[2]], [[3, 4, 5, 6], "$auto", A[1]], [[6], "$auto", {}],
                    [[1, 2], "$auto", {"weight": 4}], [[5, 6], 7, {}]], {}, label="hg-gaps")
    hg_str = spec("Hypergraph", [[s, {}] for s in "abcde"], [[["a", "b", "c"], "x", {}], [["c", "d"], "y", A[4]], [["d", "e", "a"], "z", {}]],
                  {"k": [1]}, label="hg-str")
    hg_2uni = spec("Hypergraph", [[i, {}] for i in range(5)],
                   [[[0, 1], "$auto", {}], [[1, 2], "$auto", {}], [[2, 3], "$auto", {}], [[3, 4], "$auto", {}], [[4, 0], "$auto", {}],
                    [[0, 2], "$auto", {}]], {}, label="hg-2uniform")
    sc = spec("SimplicialComplex", [[i, {"weight": 1}] for i in range(6)] + [[9, A[0]]],
              [[[0, 1, 2], "$auto", {"weight": 2}], [[2, 3], "$auto", {}], [[3, 4, 5], "$auto", A[1]]], {"name": "sc", "l": [1]}, label="sc")
    sc_str = spec("SimplicialComplex", [[s, {}] for s in "abcd"], [[["a", "b", "c"], "$auto", A[4]], [["c", "d"], "$auto", {}]], {}, label="sc-str")
    dh_nice = spec("DiHypergraph", [[i, {"weight": 1}] for i in range(6)],
                   [[[[0, 1], [2]], "$auto", {"weight": 2}], [[[2], [3, 4]], "$auto", {}], [[[1, 4], [0]], "$auto", A[2]], [[[5], [5]], "$auto", {}]],
                   {"name": "dh"}, label="dh-nice")
    dh_messy = spec("DiHypergraph", [[0, A[0]], ["a", A[4]], [3, {}], ["iso", A[3]]],
                    [[[[0], ["a", 3]], 0, A[0]], [[[], [3]], "e", A[1]], [[["a"], []], 5, {}], [[[0, 3], [0]], "$auto", A[4]]],
                    {"info": {"l": [1]}}, label="dh-messy")
    empty = spec("Hypergraph", [], [], {}, label="hg-empty")
    nodes_only = spec("Hypergraph", [[0, A[0]], [1, {}]], [], {"a": [1]}, label="hg-nodes-only")
    # one-element views: the only networks on which argmin/argmax/argsort of a multi-stat can complete (no comparison of dicts)
    hg_one = spec("Hypergraph", [[0, {"weight": 1}]], [[[0], "$auto", {"weight": 2}]], {}, label="hg-one")
    dh_one = spec("DiHypergraph", [[0, {"weight": 1}]], [[[[0], [0]], "$auto", {"weight": 2}]], {}, label="dh-one")
    # integer IDs that collide in a small hash table (0, 8, 16 mod 8): a member set that is emptied and refilled iterates in a
    # different order, which only the set-iteration-order component of the snapshot can see
    hg_collide = spec("Hypergraph", [[i, {}] for i in (0, 8, 16, 1)], [[[0, 8, 16], "$auto", {}], [[16, 8, 1], "$auto", {}]], {}, label="hg-collide")
    out = [hg_nice, hg_messy, sc, dh_nice, hg_gaps, dh_messy, hg_str, sc_str, hg_2uni, empty, nodes_only, hg_one, dh_one, hg_collide]
    for s in (hg_nice, hg_messy, sc, dh_messy):
        f = copy.deepcopy(s)
        f["frozen"], f["label"] = True, s["label"] + "-frozen"
        out.append(f)
    return out


def family_specs(rng):
    """REGIME / CLASS / LABEL families (review 2): networks large enough to cross size thresholds (>= 70 IDs, >= 130 parallel
    edges, >= 64 distinct edges, an integer label above 2**53), trivial subclasses of the three classes, tuple node labels and
    tuple edge IDs.  `large` specs are visited with default arguments by the functions and network methods only."""
    T = lambda *xs: {"$tuple": list(xs)}
    big = 2 ** 53 + 1
    n = 72
    ids = list(range(n - 2)) + [big, big + 2]
    star = [[[ids[0], ids[i], ids[i + 1]], "$auto", {}] for i in range(1, 67)]            # 66 distinct triangles around node 0
    par = [[[ids[3], ids[4], ids[5]], "$auto", ({"weight": 2} if k == 0 else {})] for k in range(132)]   # 132 parallel edges
    hg_large = spec("Hypergraph", [[i, ({"weight": 1} if i == 0 else {})] for i in ids], star + par + [[[ids[-1], ids[-2]], big + 7, NESTED[0]]],
                    {"name": "large", "info": {"l": [1]}}, label="hg-large")
    hg_large["large"] = True
    dh_large = spec("DiHypergraph", [[i, {}] for i in ids],
                    [[[[ids[0], ids[i]], [ids[i + 1]]], "$auto", {}] for i in range(1, 67)] + [[[[ids[3]], [ids[4], ids[5]]], "$auto", {}] for k in range(132)],
                    {"name": "large"}, label="dh-large")
    dh_large["large"] = True
    sc_large = spec("SimplicialComplex", [[i, {}] for i in ids], [[[ids[i], ids[i + 1], ids[i + 2]], "$auto", {}] for i in range(0, n - 2)],
                    {"name": "large"}, label="sc-large")
    sc_large["large"] = True
    my_h = spec("MyH", [[0, NESTED[0]], ["a", NESTED[1]], [5, {}], [7, {}]], [[[0, "a"], 0, NESTED[2]], [[0, 5, 7], "e", NESTED[0]], [[5, 7], "$auto", {}], [[0, "a"], "$auto", {}]],
                {"name": "sub", "info": {"l": [1]}}, label="sub-hg")
    my_s = spec("MyS", [[i, {"weight": 1}] for i in range(5)], [[[0, 1, 2], "$auto", {"weight": 2}], [[2, 3], "$auto", {}], [[3, 4], "$auto", NESTED[1]]], {"name": "sub"}, label="sub-sc")
    my_d = spec("MyD", [[i, {"weight": 1}] for i in range(5)], [[[[0, 1], [2]], "$auto", {"weight": 2}], [[[2], [3, 4]], "$auto", {}], [[[1, 4], [0]], 7, NESTED[2]]], {"name": "sub"}, label="sub-dh")
    nodes_t = [T(0, 0), T(0, 1), T(1, 1), "a", 3]
    hg_tuple = spec("Hypergraph", [[x, ({"weight": 1} if i == 0 else {})] for i, x in enumerate(nodes_t)],
                    [[[T(0, 0), T(0, 1), "a"], T(1, 2), {"weight": 2}], [[T(0, 1), T(1, 1)], T("e", 0), NESTED[0]], [[T(1, 1), 3, "a"], "$auto", {}], [[3], 5, {}]],
                    {"name": "tuple"}, label="hg-tuple")
    dh_tuple = spec("DiHypergraph", [[x, {}] for x in nodes_t],
                    [[[[T(0, 0)], [T(0, 1), "a"]], 4, {"weight": 2}], [[[T(0, 1), 3], [T(1, 1)]], T(1, 2), NESTED[1]], [[["a"], [3]], "$auto", {}]],
                    {"name": "tuple"}, label="dh-tuple")
    sc_tuple = spec("SimplicialComplex", [[x, {}] for x in nodes_t], [[[T(0, 0), T(0, 1), "a"], T(9, 9), {"weight": 2}], [[T(1, 1), 3], "$auto", {}]], {"name": "tuple"}, label="sc-tuple")
    return [hg_large, dh_large, sc_large, my_h, my_s, my_d, hg_tuple, dh_tuple, sc_tuple]


def random_spec(rng, k):
    cls = rng.choice(["Hypergraph", "Hypergraph", "SimplicialComplex", "DiHypergraph"])
    pools = [list(range(6)), [0, 1, 2, 3, 4, 7], ["a", "b", "c", "d", "e"], [0, "a", 2, "b", 5], [3, 1, 0, 2, 9, 4]]
    pool = list(rng.choice(pools if cls != "SimplicialComplex" else pools[:3]))
    rng.shuffle(pool)
    nodes = [[n, copy.deepcopy(rng.choice(NESTED))] for n in pool[:rng.randint(2, len(pool))]]
    ids = [n for n, _ in nodes]
    eids = rng.choice([None, None, [0, 2, "e", 5, 1, 9, 11], [3, 2, 1, 0, 8, 9, 10]])
    edges = []
    for i in range(rng.randint(0, 6)):
        sz = rng.choice([0, 1, 2, 2, 3, 3, 4]) if cls == "Hypergraph" else rng.choice([1, 2, 2, 3])
        ms = rng.sample(ids, min(sz, len(ids)))
        if cls == "DiHypergraph":
            cut = rng.randint(0, len(ms))
            ms = [ms[:cut], ms[cut:] if rng.random() < 0.8 else rng.sample(ids, min(2, len(ids)))]
        idx = "$auto" if (eids is None or cls == "SimplicialComplex" or rng.random() < 0.3) else eids[i]
        edges.append([ms, idx, copy.deepcopy(rng.choice(NESTED))])
    net = copy.deepcopy(rng.choice([{}, {"name": "r"}, {"info": {"l": [1, [2]]}, "b": 1, "a": 0}]))
    return spec(cls, nodes, edges, net, frozen=rng.random() < 0.25, label=f"random-{k}")


def _mutables_in(v, acc):
    """ids of the mutable containers inside a user-supplied attribute value"""
    if isinstance(v, (dict, list, set, bytearray)):
        acc.add(id(v))
    if isinstance(v, dict):
        for x in v.values():
            _mutables_in(x, acc)
    elif isinstance(v, (list, tuple, set, frozenset)):
        for x in v:
            _mutables_in(x, acc)


def build(sp):
    """-> (network, ids of the nested mutable attribute values the caller supplied) ; public API only"""
    cls = FAMILY_CLASSES.get(sp["cls"]) or getattr(xgi, sp["cls"])
    H = cls()
    nested = set()
    di, sc = issubclass(cls, xgi.DiHypergraph), issubclass(cls, xgi.SimplicialComplex)
    with warnings.catch_warnings():
        warnings.simplefilter("ignore")
        for n, a in sp["nodes"]:
            a = _dec(copy.deepcopy(a))
            for v in a.values():
                _mutables_in(v, nested)
            H.add_node(_decid(n), **a)
        for ms, idx, a in sp["edges"]:
            ms, idx = _decid(ms), _decid(idx)
            a = _dec(copy.deepcopy(a))
            for v in a.values():
                _mutables_in(v, nested)
            kw = {} if idx == "$auto" else {"idx": idx}
            if sc:
                H.add_simplex(list(ms), **kw, **a)
            elif di:
                H.add_edge((list(ms[0]), list(ms[1])), **kw, **a)
            else:
                H.add_edge(list(ms), **kw, **a)
        for k, v in sp["net"].items():
            v = _dec(copy.deepcopy(v))
            _mutables_in(v, nested)
            H[k] = v
        if sp["frozen"]:
            H.freeze()
    return H, nested


# ----------------------------------------------------------------------------- deep snapshot

def fz(v, _d=0):
    """deep, hashable, type- and order-sensitive image of a value (sets: order-insensitive)"""
    if _d > 40:
        return ("deep", repr(type(v)))
    if v is None or isinstance(v, (bool, str, bytes)):
        return (type(v).__name__, v)
    if isinstance(v, (int, float, complex, np.generic)):
        return (type(v).__name__, repr(v))
    if isinstance(v, dict):
        return ("dict", type(v).__name__, tuple((fz(k, _d + 1), fz(x, _d + 1)) for k, x in v.items()))
    if isinstance(v, (set, frozenset)):
        return (type(v).__name__, frozenset(fz(x, _d + 1) for x in v))
    if isinstance(v, (list, tuple)):
        return (type(v).__name__, tuple(fz(x, _d + 1) for x in v))
    if isinstance(v, np.ndarray):
        if v.dtype == object:
            return ("ndarray", v.shape, tuple(fz(x, _d + 1) for x in v.ravel()))
        return ("ndarray", str(v.dtype), v.shape, v.tobytes())
    if isinstance(v, itertools.count):
        return ("count", next(copy.copy(v)))
    if callable(v):
        return ("callable", getattr(v, "__qualname__", type(v).__name__))
    if hasattr(v, "__dict__"):
        return ("obj", type(v).__name__, fz(vars(v), _d + 1))
    return ("repr", type(v).__name__, repr(v))


def is_di(H):
    return isinstance(H, xgi.DiHypergraph)


def next_uid_public(H):
    """the ID the next automatic edge would get, read publicly: add an edge to a copy"""
    try:
        C = H.copy()
        before = set(C.edges)
        with warnings.catch_warnings():
            warnings.simplefilter("ignore")
            if isinstance(C, xgi.SimplicialComplex):
                C.add_simplex([PROBE])
            elif is_di(C):
                C.add_edge(([PROBE], [PROBE + "2"]))
            else:
                C.add_edge([PROBE])
        new = [e for e in C.edges if e not in before]
        return fz(new)
    except Exception as ex:  # noqa
        return ("err", type(ex).__name__)


def snapshot(H, public_uid=True):
    """components of the observable state; all values hashable"""
    s = {}
    nodes, edges = list(H.nodes), list(H.edges)
    s["nodes"] = fz(nodes)
    s["edges"] = fz(edges)
    if is_di(H):
        s["members"] = fz({e: (H.edges.tail(e), H.edges.head(e)) for e in edges})
        s["memberships"] = fz(H.nodes.dimemberships())
    else:
        s["members"] = fz(H.edges.members(dtype=dict))
        s["memberships"] = fz(H.nodes.memberships())
    try:
        s["node-attrs"] = fz([(n, H.nodes[n]) for n in nodes])
        s["edge-attrs"] = fz([(e, H.edges[e]) for e in edges])
    except Exception as ex:  # noqa  (an ID without attribute record: still a state, compare the failure)
        s["node-attrs"] = s["edge-attrs"] = ("err", type(ex).__name__, str(ex)[:80])
    s["frozen-flag"] = fz(H.is_frozen)
    s["next-edge-id"] = fz(next(copy.copy(H._edge_uid)))
    # the same read publicly (add an edge to a copy and look at its ID; costs a deep copy, so the after-snapshots take it on a
    # sample of the calls only - the private read above is taken every time)
    s["next-edge-id-public"] = next_uid_public(H) if public_uid else None
    # everything the object holds, read generically (field names are not spelled out): catches the key order of the
    # three attribute dicts, the network attributes, the counter and any private field
    raw = {k: fz(v) for k, v in vars(H).items()}
    s["private-state"] = tuple((k, raw[k]) for k in sorted(raw))
    s["_raw"] = raw
    # iteration order of every set the object holds (member / membership sets): `fz` compares sets as sets, the order a
    # `for` loop over them sees is recorded here separately (the statement lists "iteration order")
    s["set-iteration-order"] = tuple((k, set_orders(v)) for k, v in sorted(vars(H).items(), key=lambda kv: kv[0]))
    return s


def set_orders(v, _d=0):
    """image of the iteration orders of the sets inside dict / list / tuple structure (None where there is no set)"""
    if _d > 6:
        return None
    if isinstance(v, (set, frozenset)):
        return ("order", tuple(v))
    if isinstance(v, dict):
        inner = tuple((k, set_orders(x, _d + 1)) for k, x in v.items())
        return inner if any(x is not None for _, x in inner) else None
    if isinstance(v, (list, tuple)):
        inner = tuple(set_orders(x, _d + 1) for x in v)
        return inner if any(x is not None for x in inner) else None
    return None


def pretty(v):
    """readable text of an fz image"""
    try:
        tag = v[0]
        if tag in ("NoneType",):
            return "None"
        if tag in ("bool", "str", "bytes"):
            return repr(v[1])
        if tag == "dict":
            return "{" + ", ".join(f"{pretty(k)}: {pretty(x)}" for k, x in v[2]) + "}"
        if tag in ("set", "frozenset"):
            return "{" + ", ".join(sorted(pretty(x) for x in v[1])) + "}" if v[1] else "set()"
        if tag == "list":
            return "[" + ", ".join(pretty(x) for x in v[1]) + "]"
        if tag == "tuple":
            return "(" + ", ".join(pretty(x) for x in v[1]) + ")"
        if tag == "count":
            return f"count({v[1]})"
        if tag in ("callable", "obj", "repr", "ndarray", "deep", "err"):
            return str(v)[:120]
        return str(v[1])
    except Exception:  # noqa
        return str(v)[:120]


def first_difference(a, b, path=""):
    """(path, before, after) of the first place where two fz images differ"""
    try:
        if a[0] == b[0] == "dict" and [k for k, _ in a[2]] == [k for k, _ in b[2]]:
            for (k, x), (_, y) in zip(a[2], b[2]):
                if x != y:
                    return first_difference(x, y, f"{path}[{pretty(k)}]")
        if a[0] == b[0] and a[0] in ("list", "tuple") and len(a[1]) == len(b[1]):
            for i, (x, y) in enumerate(zip(a[1], b[1])):
                if x != y:
                    return first_difference(x, y, f"{path}[{i}]")
    except Exception:  # noqa
        pass
    return path, pretty(a)[:200], pretty(b)[:200]


COMPONENTS = ["nodes", "edges", "members", "memberships", "node-attrs", "edge-attrs", "frozen-flag", "next-edge-id", "private-state"]


def _order_only(a, b):
    """both are fz images of lists with the same multiset of items"""
    try:
        return a != b and sorted(map(repr, a[1])) == sorted(map(repr, b[1]))
    except Exception:  # noqa
        return False


def diff(before, after):
    """[(failure_class, detail)] - empty when nothing observable changed"""
    out = []
    for c in COMPONENTS[:-1]:
        if before[c] != after[c]:
            cls = c
            if c in ("nodes", "edges") and _order_only(before[c], after[c]):
                cls = c[:-1] + "-order"
            pth, x, y = first_difference(before[c], after[c])
            out.append((cls, f"{c}{pth}: {x} -> {y}"))
    if before.get("next-edge-id-public") is not None and after.get("next-edge-id-public") is not None \
            and before["next-edge-id-public"] != after["next-edge-id-public"] and not any(c == "next-edge-id" for c, _ in out):
        out.append(("next-edge-id", f"ID given to the next automatic edge (read publicly on a copy): "
                                    f"{pretty(before['next-edge-id-public'])} -> {pretty(after['next-edge-id-public'])}"))
    if not out and before["private-state"] != after["private-state"]:
        rb, ra = before["_raw"], after["_raw"]
        fields = [k for k in sorted(set(rb) | set(ra)) if rb.get(k) != ra.get(k)]
        for k in fields:
            kind = "attr-key-order" if _dict_order_only(rb.get(k), ra.get(k)) else "private-state"
            pth, x, y = first_difference(rb.get(k, ("NoneType", None)), ra.get(k, ("NoneType", None)))
            out.append((kind, f"field {k}{pth}: {x} -> {y}"))
    if not out and before.get("set-iteration-order") != after.get("set-iteration-order"):
        b, a = dict(before["set-iteration-order"]), dict(after["set-iteration-order"])
        k = next((k for k in sorted(set(a) | set(b)) if a.get(k) != b.get(k)), "?")
        out.append(("set-iteration-order", f"field {k}: the iteration order of a member/membership set changed "
                                           f"(same elements): {_first_order_change(b.get(k), a.get(k))}"))
    return out


def _first_order_change(b, a):
    try:
        if b and a and b[0] == "order" and a[0] == "order":
            return f"{list(b[1])!r} -> {list(a[1])!r}"
        for x, y in zip(b, a):
            if x != y:
                if isinstance(x, tuple) and len(x) == 2 and x[0] != "order" and isinstance(x[1], tuple):
                    return f"[{x[0]!r}] " + _first_order_change(x[1], y[1])
                return _first_order_change(x, y)
    except Exception:  # noqa
        pass
    return "?"


def private_field(detail):
    """name of the private field a `private-state` / `attr-key-order` difference was found in"""
    import re
    m = re.match(r"field (\w+)", detail)
    return m.group(1) if m else None


def _dict_order_only(a, b):
    try:
        return a[0] == "dict" and b[0] == "dict" and a != b and sorted(map(repr, a[2])) == sorted(map(repr, b[2]))
    except Exception:  # noqa
        return False


# ----------------------------------------------------------------------------- reachability (aliasing)

def _view_classes():
    from xgi.core import views
    import xgi.stats as st
    import inspect
    vs = tuple(c for c in vars(views).values() if inspect.isclass(c) and c.__module__ == views.__name__)
    ss = tuple(c for c in vars(st).values() if inspect.isclass(c) and c.__module__ == st.__name__)
    return vs + ss


LIVE = None
NETS = (xgi.Hypergraph, xgi.DiHypergraph)


def reach(root, cap=200000):
    """{id: (object, path)} of the mutable containers reachable from `root` through dicts, lists, tuples, sets,
    object arrays, pandas objects, and the fields of xgi / networkx objects.  Live views and stat objects (which are
    documented to reference their network) are not entered; they are returned separately."""
    global LIVE
    if LIVE is None:
        LIVE = _view_classes()
    seen, out, live = set(), {}, []
    stack = [(root, "ret")]
    while stack and len(seen) < cap:
        o, path = stack.pop()
        if id(o) in seen:
            continue
        seen.add(id(o))
        if o is None or isinstance(o, (bool, int, float, complex, str, bytes, np.generic)):
            continue
        if isinstance(o, LIVE):
            live.append((o, path))
            continue
        if isinstance(o, dict):
            out[id(o)] = (o, path)
            for k, v in list(o.items()):
                stack.append((v, f"{path}[{k!r}]"))
                if isinstance(k, (tuple, frozenset)):
                    stack.append((k, f"{path}.key"))
        elif isinstance(o, (set, list, bytearray)):
            out[id(o)] = (o, path)
            if not isinstance(o, bytearray):
                for i, v in enumerate(list(o)):
                    stack.append((v, f"{path}[{i}]" if isinstance(o, list) else f"{path}{{…}}"))
        elif isinstance(o, (tuple, frozenset)):
            for i, v in enumerate(o):
                stack.append((v, f"{path}[{i}]"))
        elif isinstance(o, np.ndarray):
            out[id(o)] = (o, path)
            if o.base is not None:
                stack.append((o.base, path + ".base"))
            if o.dtype == object:
                for i, v in enumerate(o.ravel().tolist()):
                    stack.append((v, f"{path}.flat[{i}]"))
        elif isinstance(o, itertools.count):
            out[id(o)] = (o, path)
        else:
            mod = type(o).__module__ or ""
            if mod.startswith("pandas"):
                try:
                    stack.append((o.to_numpy(dtype=object).ravel().tolist(), path + ".values"))
                    stack.append((list(o.index), path + ".index"))
                except Exception:  # noqa
                    pass
            elif mod.startswith(("xgi", "networkx")) and hasattr(o, "__dict__"):
                for k, v in vars(o).items():
                    stack.append((v, f"{path}.{k}"))
            # scipy sparse matrices, matplotlib artists, generators, functions: leaves
    return out, live


def scribble(containers, skip_ids):
    """mutate, in place, every plain container reachable from a return value (not the caller's own nested values)"""
    n = 0
    for i, (o, path) in containers.items():
        if i in skip_ids:
            continue
        try:
            if isinstance(o, set):
                o.add(SENT); n += 1
            elif isinstance(o, dict):
                o[SENT] = SENT; n += 1
            elif isinstance(o, list):
                o.append(SENT); n += 1
            elif isinstance(o, np.ndarray) and o.flags.writeable and o.size and o.dtype.kind in "iuf":
                o.flat[0] = o.flat[0] + 1; n += 1
        except Exception:  # noqa  (IDDict rejects some keys, read-only arrays …)
            pass
    return n


def mutate_network(R):
    """public mutations of a returned, unfrozen network"""
    with warnings.catch_warnings():
        warnings.simplefilter("ignore")
        for f in (lambda: R.set_node_attributes(SENT, name=SENT), lambda: R.set_edge_attributes(SENT, name=SENT),
                  lambda: R.__setitem__(SENT, SENT), lambda: R.add_node(SENT),
                  lambda: R.add_simplex([SENT, SENT + "2"]) if isinstance(R, xgi.SimplicialComplex) else
                  (R.add_edge(([SENT], [SENT + "2"])) if is_di(R) else R.add_edge([SENT, SENT + "2"])),
                  lambda: R.remove_node(next(iter(R.nodes))),
                  lambda: R.clear()):
            try:
                f()
            except Exception:  # noqa
                pass


# ----------------------------------------------------------------------------- argument generators

class NoGen(Exception):
    pass


def _subset(xs, k):
    return list(xs)[:k]


# parameters whose values are IDs / collections of IDs of the network under test (rotated by position, not reported as
# "option values"); every other generated value is a network-independent option value
ID_PARAMS = {"n", "node", "source", "target", "nid1", "nid2", "e", "edge", "idx", "key", "id", "bunch", "nodes", "edges", "neighbors",
             "simplex", "other", "n_id", "n_id1", "n_id2", "e_id1", "e_id2", "members", "view", "H2", "pos", "node_pos", "path",
             "dag", "theta0", "omega", "x", "orientations", "node_id", "edge_id"}

STYLE_SUFFIX = (("_fc", ["red", "$idstat", "$iddict"]), ("_ec", ["blue", "$idstat"]), ("_color", ["green", "$idstat"]),
                ("_size", [3, "$idstat", "$iddict"]), ("_lw", [2, "$idstat"]), ("_cmap", ["viridis"]),
                ("_shape", ["s"]), ("_style", ["dashed"]))


def _same(a, b):
    return type(a) is type(b) and a == b


def candidates(pname, net, domain, default, env, literals=()):
    """values to try for a parameter, valid-first: the literals the function's own body compares the parameter with
    (`literals`, from c08_translate.option_literals) come before the per-name table; `domain` in {"node","edge",None};
    `env` gives temp paths and helper objects.  Tokens (strings starting with "$") are resolved by `resolve`."""
    vals = _table_candidates(pname, net, domain, default, env, bool(literals))
    out = []
    # a literal None in the body is as often a guard (`if node is None: raise`) as an option: it goes last
    for v in [x for x in literals if x is not None] + vals + [x for x in literals if x is None]:
        if isinstance(v, (str, bool, int, float)) or v is None:
            if any(_same(v, w) for w in out if isinstance(w, (str, bool, int, float)) or w is None):
                continue
        elif any(w == v and type(w) is type(v) for w in out):
            continue
        out.append(v)
    return out


def _table_candidates(pname, net, domain, default, env, has_literals=False):
    nodes, edges = list(net.nodes), list(net.edges)
    ids = edges if domain == "edge" else nodes
    other = nodes if domain == "edge" else edges
    T, F = True, False
    # attribute names that exist in this network at the level the parameter addresses (first: a call that can complete)
    try:
        if domain == "node":
            present = [k for n in nodes for k in net.nodes[n]]
        elif domain == "edge":
            present = [k for e in edges for k in net.edges[e]]
        else:
            present = [k for k in ("name", "info", "z", "k", "l", "a", "b") if _has_net_attr(net, k)]
    except Exception:  # noqa
        present = []
    present = [k for i, k in enumerate(present) if isinstance(k, str) and k not in present[:i]][:2]
    table = {
        "n": nodes[:2], "node": nodes[:2], "source": nodes[:2], "nid1": nodes[:1], "nid2": nodes[1:3][::-1],
        "e": edges[:2] + [None], "edge": edges[:2],
        "idx": ids[:2], "key": ids[:2], "id": ids[:2],
        "bunch": [_subset(ids, 3), list(ids), _subset(ids, 1)],
        "nodes": [_subset(nodes, 3), list(nodes)[::-1], None], "edges": [_subset(edges, 2), list(edges)[::-1], None],
        "order": [1, 2, 0, None], "d": [1, 2, 0, None], "max_order": [2, 1, None], "s": [1, 2], "k": [2, 3],
        "orders": [[1, 2], [1]], "weights": [[1, 1], [1], None, "absolute", "normalized"],
        "pos": ["$pos"], "node_pos": ["$pos"], "path": ["$tmp"],
        "seed": [0, 1], "p": [0.5, 1.0, 0.0],
        "kind": ["uniform", "top-2", "top-bottom", "union", "min", "max"],
        "subset_types": ["all", "immediate", "empirical"], "dag": ["$dag"],
        "theta0": ["$phase1"], "omega": ["$phase1", None],
        "k2": [1.0], "k3": [1.0], "timesteps": [5], "dt": [0.01], "n_steps": [5], "T": [0.1], "sigma": [1],
        "tol": [1e-3], "max_iter": [20], "cutoff": [5], "num_samples": [20],
        "attr": present + [a for a in ["w", "weight", "tags", "name", "info", None] if a not in present], "missing": [None, 0],
        "name": ["w", "weight"],
        "stat": ["degree" if domain != "edge" else "order", "$stat"], "val": [2, 1, 3, (1, 3)],
        "mode": ["eq", "geq", "leq", "neq", "gt", "lt", "between"],
        "neighbors": [set(_subset(other, 2)), set(_subset(other, 1))],
        "dtype": ["$type:list", "$type:dict"],
        "min_size": [2, 1, 3], "simplex": [_subset(nodes, 2), _subset(nodes, 1)],
        "H2": ["$net2"], "other": ["$view2", set(_subset(ids, 2))], "view": ["$view2"],
        "names": [["degree"] if domain != "edge" else ["order"], ["degree", "clustering_coefficient"] if domain != "edge" else ["order", "size"]],
        "center": [None, (1.0, 1.0)], "radius": [None, 2.0], "resolution": [0.35, 0.5],
        "label_attribute": ["label", "old"], "id_temp": [-1, 0],
        "delimiter": [" ", ","], "collection_name": ["", "c"],
        "weight": [None, "weight", "w"], "degree": [None, 2],
        "create_using": [None, "$class:Hypergraph"], "data": [None],
        "hyperedge_labels": [False, True], "node_labels": [False, True], "hull": [False, True],
        "theta": [0, 45], "layout": ["$layoutfn"], "bins": [10, 3], "reverse": [False, True],
        "ignore_singletons": [False, True], "default": [None, 0],
        "n_id": nodes[:1], "x": ["$ones"],
        "inner": ["$type:list", "$type:dict", "$type:set"], "orientations": ["$orient", None], "encoding": ["utf-8", "latin-1"],
        "alpha": [0.5], "zorder": [3], "aspect": ["auto"], "return_counts": [True, False],
        "center_moment": [True], "target": nodes[1:2],
        # parameters of the declared mutators (only used by the cross-check that they do mutate)
        "members": [_subset(nodes, 2) + ["$fresh"], ["$fresh", "$fresh2"]], "node_id": nodes[:1], "edge_id": edges[:1],
        "ebunch_to_add": [[_subset(nodes, 2)], [["$fresh", "$fresh2"]]], "ebunch": [_subset(edges, 1), list(edges)],
        "nodes_for_adding": [["$fresh", "$fresh2"]], "nbunch": [_subset(nodes, 1)], "values": [1, {}], "n_id1": nodes[:1], "n_id2": nodes[1:2],
        "e_id1": edges[:1], "e_id2": edges[1:2], "strong": [True], "ids": [_subset(edges, 1)], "state": [{}],
        "incoming_data": [None, [[1, 2]]], "rename": ["tuple", "new"], "merge_rule": ["first", "union"],
        "multi_edge_attr": ["multiplicity"],
    }
    # CONTAINER family: where the documentation says "iterable", every kind of iterable of IDs must be usable and none of them
    # may make the function write to the network (a set handed in must not become a stored member set, a generator must not be
    # consumed into the tables): tuple, set, frozenset, dict-keys view, generator, numpy array, the network's own live view
    for pn, dom in (("bunch", domain), ("nodes", "node"), ("edges", "edge"), ("nbunch", "node"), ("ebunch", "edge"), ("other", domain)):
        if pn in table and (edges if dom == "edge" else nodes):
            table[pn] = list(table[pn]) + [f"$as:{kind}:{dom or 'node'}" for kind in ("tuple", "set", "frozenset", "keys", "gen", "nparray", "view")]
    if domain == "mutator":                            # arguments with which a declared mutator has something to do
        table.update({"node": ["$fresh"] + nodes[:1], "idx": edges[:1] + [50], "state": ["$state", {}], "n": nodes[:1] + ["$fresh"],
                      "ebunch_to_add": [[_subset(nodes, 2) + ["$fresh"]], [["$fresh", "$fresh2"]]]})
    if pname in table:
        vals = list(table[pname])
    elif isinstance(default, bool):
        vals = [not default]
    else:
        for suf, v in STYLE_SUFFIX:
            if pname.endswith(suf):
                return list(v)
        if has_literals:
            return []
        raise NoGen(pname)
    return vals


def _has_net_attr(net, k):
    try:
        net[k]
        return True
    except Exception:  # noqa
        return False


# values for a required parameter no generator knows by name (new functions): IDs, per-ID dicts, numbers, a string
FALLBACK = ["$node0", "$edgedict", "$edge0", "$nodedict", "$nodes3", 1, 2, "w", None, 0.5]


def resolve(v, net, env):
    """tokens -> objects (fresh per call, independent of the network under test)"""
    if isinstance(v, str) and v.startswith("$"):
        if v == "$pos":
            C = copy.deepcopy(net)
            return {n: np.array([float(i), float(i * i % 3)]) for i, n in enumerate(C.nodes)}
        if v == "$tmp":
            env["n"] = env.get("n", 0) + 1
            return os.path.join(env["tmp"], f"out{env['n']}")
        if v == "$dag":
            return xgi.to_encapsulation_dag(copy.deepcopy(net))
        if v == "$net2":
            # the second operand carries network attributes of its own (keys the first network does not have): an operator that
            # merges them into a dict it shares with its first operand (`<<` without its deepcopy) then visibly changes the input
            N = build(env["spec2"])[0]
            try:
                N["__c08_name2__"] = "second"
                N["__c08_info2__"] = {"l": [3, [4]]}
            except Exception:  # noqa
                pass
            return N
        if v == "$view2":
            return build(env["spec2"])[0].nodes if env.get("domain") != "edge" else build(env["spec2"])[0].edges
        if v == "$stat":
            return "degree"
        if v == "$layoutfn":
            return xgi.circular_layout
        if v == "$phase1":
            o = env.get("kwargs", {}).get("order", 1)       # as many oscillators as there are simplices of the requested order
            o = o if isinstance(o, int) and not isinstance(o, bool) else 1
            return np.zeros((sum(1 for e in net.edges if len(net.edges.members(e)) == o + 1), 1)) + 0.1
        if v == "$ones":
            return np.ones(net.num_nodes)
        if v.startswith("$as:"):
            _, kind, dom = v.split(":")
            ids = list(net.edges if dom == "edge" else net.nodes)[:3]
            if kind == "tuple":
                return tuple(ids)
            if kind == "set":
                return set(ids)
            if kind == "frozenset":
                return frozenset(ids)
            if kind == "keys":
                return dict.fromkeys(ids).keys()
            if kind == "gen":
                return (i for i in ids)
            if kind == "view":
                return net.edges if dom == "edge" else net.nodes
            try:
                arr = np.array(ids)
                return arr if arr.ndim == 1 and arr.dtype != object and arr.dtype.kind in "iu" else ids
            except Exception:  # noqa
                return ids
        if v.startswith("$type:"):
            return {"list": list, "dict": dict, "set": set}[v[6:]]
        if v.startswith("$class:"):
            return getattr(xgi, v[7:])
        if v == "$node0":
            return next(iter(net.nodes), None)
        if v == "$edge0":
            return next(iter(net.edges), None)
        if v == "$nodes3":
            return list(net.nodes)[:3]
        if v == "$edgedict":
            return {e: 2 for e in net.edges}
        if v == "$nodedict":
            return {n: 2 for n in net.nodes}
        if v == "$state":
            other = build(env["spec2"])[0]
            return other.__getstate__() if hasattr(other, "__getstate__") else dict(vars(other))
        if v in ("$fresh", "$fresh2"):
            return "__c08_new_node_" + ("2" if v.endswith("2") else "1") + "__"
        if v == "$idstat":
            return net.nodes.degree if env.get("pname", "").startswith(("node", "layer")) or not len(net.edges) else \
                (net.edges.order if hasattr(net.edges, "order") else net.edges.size)
        if v == "$iddict":
            ids = net.nodes if env.get("pname", "").startswith("node") else net.edges
            return {i: (k % 3) + 1 for k, i in enumerate(ids)}
        if v == "$orient":
            return {e: (k % 2) for k, e in enumerate(net.edges)}
    if isinstance(v, dict) and set(v) == {"$set"}:
        return set(v["$set"])
    if isinstance(v, dict) and set(v) == {"$tuple"}:
        return tuple(v["$tuple"])
    if isinstance(v, list) and any(isinstance(x, (str, list)) for x in v):
        return [resolve(x, net, env) if (isinstance(x, str) and x.startswith("$fresh")) or isinstance(x, list) else x for x in v]
    return v


def encode(v):
    """argument value -> JSON (replayable)"""
    if isinstance(v, (set, frozenset)):
        return {"$set": sorted(v, key=repr)}
    if isinstance(v, tuple):
        return {"$tuple": [encode(x) for x in v]}
    if isinstance(v, list):
        return [encode(x) for x in v]
    if isinstance(v, (np.integer,)):
        return int(v)
    if isinstance(v, (np.floating,)):
        return float(v)
    return v


UNSTABLE = ("unstable",)
_LIVE_CACHE = []


def image(v, _d=0):
    """value image of a RESULT for 'the same call on a freshly built equal network gives the same answer' (held-object family);
    contains UNSTABLE where the value has no portable image (figures, arbitrary objects): such results are not compared"""
    if _d > 12:
        return UNSTABLE
    if isinstance(v, NETS):
        try:
            s = snapshot(v, public_uid=False)
            return ("net", type(v).__name__, s["nodes"], s["edges"], s["members"], s["node-attrs"], s["edge-attrs"], fz(dict(v._net_attr)))
        except Exception:  # noqa
            return UNSTABLE
    if v is None or isinstance(v, (bool, str, bytes, int, float, complex, np.generic)):
        return fz(v)
    if isinstance(v, np.ndarray):
        return fz(v) if v.dtype != object else UNSTABLE
    if hasattr(v, "toarray") and hasattr(v, "shape"):
        try:
            return ("sparse", tuple(v.shape), fz(np.asarray(v.toarray())))
        except Exception:  # noqa
            return UNSTABLE
    if isinstance(v, dict):
        return ("dict", tuple((image(k, _d + 1), image(x, _d + 1)) for k, x in v.items()))
    if isinstance(v, (list, tuple)):
        return (type(v).__name__, tuple(image(x, _d + 1) for x in v))
    if isinstance(v, (set, frozenset)):
        return (type(v).__name__, frozenset(image(x, _d + 1) for x in v))
    if not _LIVE_CACHE:
        try:
            _LIVE_CACHE.append(_view_classes())
        except Exception:  # noqa
            _LIVE_CACHE.append(())
    live = _LIVE_CACHE[0]
    if live and isinstance(v, live):
        try:
            return ("live", type(v).__name__, image(v.asdict() if hasattr(v, "asdict") else list(v), _d + 1))
        except Exception:  # noqa
            return UNSTABLE
    mod = type(v).__module__ or ""
    if mod.startswith("pandas"):
        try:
            return ("pandas", type(v).__name__, image(v.to_dict(), _d + 1))
        except Exception:  # noqa
            return UNSTABLE
    if mod.startswith("networkx"):
        try:
            return ("nx", type(v).__name__, image(sorted(map(repr, v.nodes(data=True))), _d + 1), image(sorted(map(repr, v.edges(data=True))), _d + 1))
        except Exception:  # noqa
            return UNSTABLE
    return UNSTABLE


def has_unstable(img):
    if img is UNSTABLE or img == UNSTABLE:
        return True
    if isinstance(img, (tuple, frozenset)):
        return any(has_unstable(x) for x in img)
    return False


def edit_network(H, kind):
    """edits between two calls on the SAME network object.  kind 'cpe': count-preserving (one edge out, a different one in:
    same numbers of nodes and edges); 'plain': a node, an edge and two attribute writes.  -> True when the edit was made"""
    nodes, edges = list(H.nodes), list(H.edges)
    if H.is_frozen:
        return False
    with warnings.catch_warnings():
        warnings.simplefilter("ignore")
        try:
            if kind == "cpe":
                if isinstance(H, xgi.SimplicialComplex) or not edges or len(nodes) < 3:
                    return False
                e = edges[-1]
                old = set(H.edges.members(e))
                new = [n for n in nodes if n not in old][:2] + list(old)[:1]
                if set(new) == old or len(new) < 2:
                    return False
                H.remove_edge(e)
                if is_di(H):
                    H.add_edge((new[:1], new[1:]))
                else:
                    H.add_edge(new)
                return len(H.nodes) == len(nodes) and len(H.edges) == len(edges)
            if isinstance(H, xgi.SimplicialComplex):
                H.add_simplex([nodes[0], "__c08_held__"] if nodes else ["__c08_held__", "__c08_held2__"])
            elif is_di(H):
                H.add_edge(([nodes[0]] if nodes else [], ["__c08_held__"]))
            else:
                H.add_edge(([nodes[0]] if nodes else []) + ["__c08_held__"])
            H.set_node_attributes({"__c08_held__": {"weight": 3, "color": "r"}})      # scalars: nothing nested the walk would
            H["__c08_held_attr__"] = 1                                                 # have to know as caller-supplied
            return True
        except Exception:  # noqa
            return False


class CallTimeout(Exception):
    pass


def _alarm(signum, frame):
    raise CallTimeout("call exceeded the per-call time limit")


def with_timeout(f, seconds=8):
    old = signal.signal(signal.SIGALRM, _alarm)
    signal.alarm(seconds)
    try:
        return f()
    finally:
        signal.alarm(0)
        signal.signal(signal.SIGALRM, old)


def jdump(x):
    return json.dumps(x, sort_keys=True, default=repr)
