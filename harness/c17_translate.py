"""C17 translator: Python source of xgi  ->  lean/XgiModel/Generated/SeedTable.lean  (regenerated on every run).

For every function of the package that has a parameter named `seed` the translator emits the ordered list
of RNG effects of its body *for a call with a concrete seed* (branch `seed is not None`):

    seed src cond     random.seed(seed) -> pyGlobal, np.random.seed(seed) -> npGlobal; cond = it stands under
                      `if seed is not None:`; creation of a generator object from the seed -> `seed local`
    draw src          one call site that consumes randomness from src
    forwardSeed f     call of another function of the table with the seed passed on
    callUnseeded f    call of another function of the table without a seed (it runs with seed=None)

Loops and branches are flattened: one effect per call *site*, in source order.  Calls of package functions
that have no `seed` parameter (private helpers, `geometric`, methods resolved by name) are inlined; nested
`def`s / named lambdas are walked where they are called or referenced.
A seeding call counts only when it is unconditional or directly under `if seed is not None:`; a seeding
call anywhere else (under `if seed:`, in a loop, in an except clause) is ignored - later draws then fail the
discipline.

NO CALL IS DROPPED SILENTLY.  Inside the body of a seeded function (and of everything inlined into it) every
call is resolved - through imports AND through local aliases (`layout = nx.spring_layout`, `r = random`,
`rnd = random.random`): a call through an alias is treated exactly like the direct spelling - and then
classified by the explicit tables below.  A call whose callee cannot be resolved (`getattr(x, n)(...)`,
`table[k](...)`, a parameter / local variable holding a callable, a name that is neither imported nor a
package function/class nor a builtin, a method whose name neither belongs to a package class nor stands on
the whitelist of deterministic methods, a function of a module that no table classifies) is emitted as
`draw unknown` - and so is a bare *reference* to an RNG function that escapes (`map(random.random, ...)`,
`{"spring": nx.spring_layout}`).  `draw unknown` fails the discipline, so `C17_table` fails for that function
and the dynamic run has to produce the witness.

A seed that travels in a dict is followed: `kwargs.setdefault("seed", seed)` (own `**kwargs` only),
`kwargs["seed"] = seed`, `kwargs.update(seed=seed)`, `dict(kwargs, seed=seed)`, `{**kwargs, "seed": seed}`
make `f(..., **kwargs)` a call with `seed=<derived>`.

The list `introspected` of the generated file does NOT come from the AST: it is obtained by importing the
package from the same tree and asking `inspect.signature` (see `introspect_public`).

TRUSTED: this file.  What it trusts in turn is the classification of library calls below (kept explicit, in
one place).  Its output is cross-checked dynamically by harness/props/c17.py (wrapped RNG entry points, RNG
state diffs).
"""
import ast
import os
import sys

VERIF = os.path.dirname(os.path.dirname(os.path.abspath(__file__)))
OUT_FILE = os.path.join(VERIF, "lean", "XgiModel", "Generated", "SeedTable.lean")
PKG = "xgi"

# ----------------------------------------------------------------------------------------------------------
# Classification tables (the trusted part).  Keys are fully resolved dotted names.

# stdlib `random`: module-level functions that consume the global Mersenne Twister
PY_DRAWS = {
    "random", "uniform", "triangular", "randint", "randrange", "choice", "choices", "shuffle", "sample",
    "getrandbits", "randbytes", "betavariate", "binomialvariate", "expovariate", "gammavariate", "gauss",
    "lognormvariate", "normalvariate", "vonmisesvariate", "paretovariate", "weibullvariate",
}
PY_NEUTRAL = {"getstate"}          # reads only
# numpy.random: module-level functions that consume the global RandomState
NP_DRAWS = {
    "random", "rand", "randn", "randint", "random_integers", "random_sample", "ranf", "sample", "bytes", "choice",
    "shuffle", "permutation", "beta", "binomial", "chisquare", "dirichlet", "exponential", "f", "gamma",
    "geometric", "gumbel", "hypergeometric", "laplace", "logistic", "lognormal", "logseries", "multinomial",
    "multivariate_normal", "negative_binomial", "noncentral_chisquare", "noncentral_f", "normal", "pareto",
    "poisson", "power", "rayleigh", "standard_cauchy", "standard_exponential", "standard_gamma",
    "standard_normal", "standard_t", "triangular", "uniform", "vonmises", "wald", "weibull", "zipf",
}
NP_NEUTRAL = {"get_state", "get_bit_generator"}
# constructors of generator objects: seeded argument -> `local`, no/None argument -> `osEntropy`
GEN_CTORS = {
    "random.Random", "numpy.random.default_rng", "numpy.random.RandomState", "numpy.random.Generator",
    "numpy.random.PCG64", "numpy.random.PCG64DXSM", "numpy.random.MT19937", "numpy.random.Philox",
    "numpy.random.SFC64", "numpy.random.SeedSequence",
}
ENTROPY_CTORS = {"random.SystemRandom"}
ENTROPY_CALLS = {"os.urandom", "secrets.token_bytes", "secrets.randbelow", "secrets.choice", "secrets.randbits",
                 "uuid.uuid4", "time.time", "time.time_ns"}
# Library functions that draw.  value = (names of the parameters that carry the randomness,
#                                        source consumed when none of them is given (documented default))
# networkx: `seed=None` means the *global* generator of numpy (np_random_state) or of `random` (py_random_state).
# scipy ARPACK wrappers (scipy >= 1.15): without `v0` the start vector comes from `default_rng(rng)`; rng=None is
# fresh OS entropy.  A given `v0` makes the call deterministic (its own origin is accounted for where it is made).
LIB = {
    "networkx.spring_layout": (("seed",), "npGlobal"),
    "networkx.fruchterman_reingold_layout": (("seed",), "npGlobal"),
    "networkx.random_layout": (("seed",), "npGlobal"),
    "networkx.forceatlas2_layout": (("seed",), "npGlobal"),
    "networkx.arf_layout": (("seed",), "npGlobal"),
    "networkx.spectral_layout": ((), None),
    "networkx.kamada_kawai_layout": ((), None),
    "networkx.fast_gnp_random_graph": (("seed",), "pyGlobal"),
    "networkx.gnp_random_graph": (("seed",), "pyGlobal"),
    "networkx.erdos_renyi_graph": (("seed",), "pyGlobal"),
    "networkx.binomial_graph": (("seed",), "pyGlobal"),
    "networkx.gnm_random_graph": (("seed",), "pyGlobal"),
    "networkx.dense_gnm_random_graph": (("seed",), "pyGlobal"),
    "networkx.barabasi_albert_graph": (("seed",), "pyGlobal"),
    "networkx.watts_strogatz_graph": (("seed",), "pyGlobal"),
    "networkx.random_regular_graph": (("seed",), "pyGlobal"),
    "scipy.sparse.linalg.eigsh": (("v0", "rng"), "osEntropy"),
    "scipy.sparse.linalg.eigs": (("v0", "rng"), "osEntropy"),
    "scipy.sparse.linalg.svds": (("v0", "rng", "random_state"), "osEntropy"),
}
LIB_PREFIXES = ("networkx.", "scipy.", "sklearn.")      # other calls into these: see `lib_call` (judged by their
#                                                         signature: a seed-like parameter means "draws")
SEEDISH_KW = ("seed", "rng", "random_state")
RNGISH_NAMES = {"rng", "prng", "random_state", "rs", "generator", "rand_gen"}   # `rng.x()` on an untracked object
PURE_BUILTINS = {"int", "abs", "float", "str", "len", "tuple", "hash", "bool"}

# --- what may be called without an effect -----------------------------------------------------------------
# Library namespaces whose functions are deterministic functions of their arguments (prefix match on the resolved
# dotted name).  numpy.random.* never gets here (classified above); networkx / scipy / sklearn are judged by
# signature (`lib_call`).  A resolved call into any module that is in none of the tables is `draw unknown`.
PURE_NAMESPACES = ("numpy.", "math.", "cmath.", "itertools.", "collections.", "operator.", "functools.", "copy.",
                   "warnings.", "string.", "re.", "json.", "numbers.", "fractions.", "decimal.", "heapq.", "bisect.",
                   "typing.", "abc.", "enum.", "dataclasses.", "contextlib.", "textwrap.")
# builtins that are deterministic functions of their arguments (or plain constructors / I/O free of randomness).
# NOT here, hence `draw unknown` when called: eval, exec, compile, __import__, globals, locals, vars, input, open,
# breakpoint, and anything this list does not name.  `getattr(x, n)` itself is harmless - *calling its result* is an
# unresolved call.  Builtin exception classes are accepted as constructors (see `_is_det_builtin`).
DET_BUILTINS = {
    "abs", "all", "any", "ascii", "bin", "bool", "bytearray", "bytes", "callable", "chr", "complex", "dict", "dir",
    "divmod", "enumerate", "filter", "float", "format", "frozenset", "getattr", "hasattr", "hash", "hex", "int",
    "isinstance", "issubclass", "iter", "len", "list", "map", "max", "min", "next", "object", "oct", "ord", "pow",
    "print", "property", "range", "repr", "reversed", "round", "set", "setattr", "delattr", "slice", "sorted", "str",
    "sum", "super", "tuple", "type", "zip", "id", "staticmethod", "classmethod", "memoryview",
}
# Method names accepted as deterministic when the receiver's type is unknown AND no class of the package defines a
# method of that name.  Grouped by the type they belong to.  Names that also name an RNG operation
# (`choice`, `sample`, `shuffle`, `random`, `uniform`, `integers`, ...) must never be listed here.
DET_METHODS = set().union(
    # list / tuple / deque
    {"append", "extend", "insert", "remove", "pop", "clear", "index", "count", "sort", "reverse", "copy", "popleft",
     "appendleft"},
    # dict / defaultdict / Counter
    {"keys", "values", "items", "get", "setdefault", "update", "popitem", "fromkeys", "most_common", "elements"},
    # set / frozenset
    {"add", "discard", "union", "intersection", "difference", "symmetric_difference", "issubset", "issuperset",
     "isdisjoint", "intersection_update", "difference_update", "symmetric_difference_update"},
    # str / bytes
    {"join", "split", "rsplit", "strip", "lstrip", "rstrip", "format", "startswith", "endswith", "lower", "upper",
     "replace", "encode", "decode", "isdigit", "isnumeric", "title", "capitalize", "zfill", "splitlines", "find"},
    # numbers
    {"is_integer", "bit_length", "conjugate"},
    # numpy.ndarray / numpy.matrix
    {"astype", "reshape", "ravel", "flatten", "tolist", "item", "sum", "mean", "std", "var", "min", "max", "argmin",
     "argmax", "argsort", "cumsum", "cumprod", "prod", "dot", "transpose", "squeeze", "nonzero", "any", "all", "fill",
     "round", "clip", "repeat", "take", "trace", "diagonal", "view", "tobytes", "searchsorted", "swapaxes", "getA",
     "getA1"},
    # scipy.sparse matrices / arrays
    {"tocsr", "tocsc", "tocoo", "tolil", "todok", "tobsr", "todia", "toarray", "todense", "asformat", "multiply",
     "power", "setdiag", "eliminate_zeros", "sum_duplicates", "getnnz", "count_nonzero", "get_shape", "getrow",
     "getcol", "asfptype", "maximum", "minimum"},
    # networkx.Graph accessors / mutators (receivers built by nx.Graph(), to_graph, ... inside the package)
    {"add_node", "add_nodes_from", "add_edge", "add_edges_from", "add_weighted_edges_from", "remove_node",
     "remove_nodes_from", "remove_edge", "remove_edges_from", "number_of_nodes", "number_of_edges", "neighbors",
     "has_node", "has_edge", "subgraph", "edge_subgraph", "to_undirected", "to_directed", "is_directed",
     "is_multigraph", "nodes", "edges", "degree", "adjacency", "nbunch_iter", "order", "size", "get_edge_data"},
    # pandas.DataFrame iteration (the converters of the package read frames row by row)
    {"itertuples", "iterrows"},
)
# method names that consume randomness on every known generator type: on a receiver of unknown type they are
# `draw unknown` even if a class of the package happens to define a method of the same name
RNG_METHOD_NAMES = (PY_DRAWS | NP_DRAWS | {"seed", "integers", "standard_normal", "spawn", "bit_generator", "jumped",
                                           "random_raw", "setstate", "set_state"}) - {"f", "power", "bytes"}
assert not (DET_METHODS & RNG_METHOD_NAMES), sorted(DET_METHODS & RNG_METHOD_NAMES)
NETWORKX_ALIASES = {"networkx.drawing.layout.": "networkx.", "networkx.generators.random_graphs.": "networkx.",
                    "networkx.drawing.": "networkx.", "scipy.sparse.linalg._eigen.arpack.": "scipy.sparse.linalg.",
                    "scipy.sparse.linalg.eigen.": "scipy.sparse.linalg."}


# ----------------------------------------------------------------------------------------------------------

class Fn:
    def __init__(self, mod, node, cls=None):
        self.mod, self.node, self.cls = mod, node, cls
        self.name = node.name
        a = node.args
        self.params = [x.arg for x in a.posonlyargs + a.args]
        self.kwonly = [x.arg for x in a.kwonlyargs]
        self.has_seed = "seed" in self.params or "seed" in self.kwonly
        self.qual = f"{mod.name}.{cls + '.' if cls else ''}{node.name}"
        self.key = None       # name in the table
        self.none_branch = False   # effects under `if seed is None:` (not modelled; callers get `draw unknown`)
        decos = {d.id for d in node.decorator_list if isinstance(d, ast.Name)}
        self.is_classmethod = cls is not None and "classmethod" in decos
        self.is_static = cls is not None and "staticmethod" in decos

    @property
    def public(self):
        parts = self.mod.name.split(".") + ([self.cls] if self.cls else []) + [self.name]
        return not any(p.startswith("_") for p in parts)

    def defaults(self):
        """parameter -> default expression"""
        a = self.node.args
        pos = a.posonlyargs + a.args
        out = {p.arg: d for p, d in zip(pos[len(pos) - len(a.defaults):], a.defaults)}
        out.update({p.arg: d for p, d in zip(a.kwonlyargs, a.kw_defaults) if d is not None})
        return out


class Mod:
    def __init__(self, name, path, rel, is_pkg):
        self.name, self.path, self.rel, self.is_pkg = name, path, rel, is_pkg
        self.src = open(path, encoding="utf-8").read()
        self.tree = ast.parse(self.src, filename=path)
        self.alias = {}
        self.funcs, self.classes = {}, {}
        self.assigned = {}     # module-level `name = <Name / Attribute chain>` (an alias of a function or module)
        self.modgens = {}      # module-level `name = random.Random(...)` / `np.random.RandomState(...)`: generator objects that
        #                        persist between calls (value: the constructor's dotted name; None when reassigned)

    def package(self):
        return self.name if self.is_pkg else self.name.rsplit(".", 1)[0]


def _resolve_relative(mod, level, target):
    base = mod.package().split(".")
    if level > 1:
        base = base[: len(base) - (level - 1)]
    return ".".join(base + ([target] if target else []))


def _collect_imports(mod, body):
    for n in ast.walk(ast.Module(body=body, type_ignores=[])):
        if isinstance(n, ast.Import):
            for a in n.names:
                if a.asname:
                    mod.alias[a.asname] = a.name
                else:
                    mod.alias[a.name.split(".")[0]] = a.name.split(".")[0]
        elif isinstance(n, ast.ImportFrom):
            base = _resolve_relative(mod, n.level, n.module) if n.level else (n.module or "")
            for a in n.names:
                if a.name != "*":
                    mod.alias[a.asname or a.name] = f"{base}.{a.name}" if base else a.name


def _norm_dotted(d):
    for k, v in NETWORKX_ALIASES.items():
        if d.startswith(k):
            d = v + d[len(k):]
    return d


def _chain(e):
    """(head expression, [attr, ...] outermost last) of an attribute chain"""
    parts = []
    while isinstance(e, ast.Attribute):
        parts.append(e.attr)
        e = e.value
    return e, parts[::-1]


def _is_name_chain(e):
    return isinstance(_chain(e)[0], ast.Name)


def _is_det_builtin(name):
    import builtins
    if name in DET_BUILTINS:
        return True
    o = getattr(builtins, name, None)
    return isinstance(o, type) and issubclass(o, BaseException)


# What a callee expression may stand for ("target"; hashable, meaningful in every module):
#   ("dotted", d)        resolves through the imports to the dotted name d (a module, or a function/class of a module)
#   ("pkgfn", qual)      a module-level function of the package
#   ("pkgclass", name)   a class of the package (calling it runs its __init__);  ("pkgclassfam", name): it or a subclass
#   ("builtin", name)    a builtin on DET_BUILTINS / an exception class
#   ("localfn", name)    a nested def / named lambda of the function being walked
#   ("const",)           a constant (None, a string, a number): never called on a path that returns
#   ("walked",)          a lambda whose body has been accounted for where it was written
#   ("method", attr)     attribute `attr` of a value of unknown type
#   ("param", p)         parameter p of the function being walked: what it stands for is decided where the function is
#                        inlined (the caller's argument, else the default); for a function of the table itself it is a
#                        callable supplied by the user -> `draw unknown`
#   ("pkginstance", K)   an instance of package class K (`self`): calling it runs K.__call__ if there is one
#   ("opaque", why)      anything else: calling it is an unresolved call -> `draw unknown`
OPAQUE = ("opaque", "")


class Translator:
    def __init__(self, repo=None):
        self.repo = repo or os.environ.get("XGI_REPO", "/repo")
        self.root = os.path.join(self.repo, PKG)
        self.mods = {}
        self.by_name = {}      # bare function name -> [Fn]
        self.by_qual = {}      # qualified name -> Fn (module-level functions)
        self.methods = {}      # method name -> [Fn]
        self.classes = {}      # class name -> [(mod, ClassDef)]
        self.class_attrs = {}  # class-level attribute name -> [targets] (`_node_dict_factory = IDDict`)
        self.notes = []
        self.memo = {}
        self._load()

    # ---- loading
    def _load(self):
        if not os.path.isdir(self.root):
            raise FileNotFoundError(self.root)
        pending = []
        for dp, dn, fn in sorted(os.walk(self.root)):
            dn[:] = sorted(d for d in dn if d not in ("__pycache__",))
            for f in sorted(fn):
                if not f.endswith(".py"):
                    continue
                path = os.path.join(dp, f)
                rel = os.path.relpath(path, self.repo)
                parts = rel[:-3].split(os.sep)
                is_pkg = parts[-1] == "__init__"
                if is_pkg:
                    parts = parts[:-1]
                m = Mod(".".join(parts), path, rel, is_pkg)
                self.mods[m.name] = m
                _collect_imports(m, m.tree.body)
                for n in m.tree.body:
                    if isinstance(n, (ast.FunctionDef, ast.AsyncFunctionDef)):
                        fnn = Fn(m, n)
                        m.funcs[n.name] = fnn
                        self.by_name.setdefault(n.name, []).append(fnn)
                        self.by_qual[fnn.qual] = fnn
                    elif isinstance(n, ast.Assign) and len(n.targets) == 1 and isinstance(n.targets[0], ast.Name) \
                            and isinstance(n.value, (ast.Name, ast.Attribute)) and _is_name_chain(n.value):
                        m.assigned[n.targets[0].id] = n.value if n.targets[0].id not in m.assigned else None   # reassigned: unknown
                    elif isinstance(n, ast.Assign) and len(n.targets) == 1 and isinstance(n.targets[0], ast.Name) \
                            and isinstance(n.value, ast.Call) and isinstance(n.value.func, (ast.Name, ast.Attribute)) \
                            and _is_name_chain(n.value.func):
                        ts = self.module_targets(m, n.value.func)
                        if len(ts) == 1 and ts[0][0] == "dotted" and (ts[0][1] in GEN_CTORS or ts[0][1] in ENTROPY_CTORS):
                            nm = n.targets[0].id
                            m.modgens[nm] = ts[0][1] if nm not in m.modgens and ts[0][1] in GEN_CTORS else None
                    elif isinstance(n, ast.ClassDef):
                        m.classes[n.name] = n
                        self.classes.setdefault(n.name, []).append((m, n))
                        for c in n.body:
                            if isinstance(c, (ast.FunctionDef, ast.AsyncFunctionDef)):
                                self.methods.setdefault(c.name, []).append(Fn(m, c, cls=n.name))
                            elif isinstance(c, (ast.Assign, ast.AnnAssign)) and c.value is not None:
                                for t in (c.targets if isinstance(c, ast.Assign) else [c.target]):
                                    if isinstance(t, ast.Name):
                                        pending.append((t.id, m, c.value))
        for name, m, val in pending:           # needs the complete class / function index
            for t in self.module_targets(m, val):
                if t not in self.class_attrs.setdefault(name, []):
                    self.class_attrs[name].append(t)
        seeded = [f for fs in self.by_name.values() for f in fs if f.has_seed]
        seeded += [f for fs in self.methods.values() for f in fs if f.has_seed]
        names = {}
        for f in seeded:
            names.setdefault(f.name if not f.cls else f"{f.cls}.{f.name}", []).append(f)
        for k, fs in names.items():
            for f in fs:
                f.key = k if len(fs) == 1 else f.qual
        self.seeded = sorted(seeded, key=lambda f: (f.mod.rel, f.node.lineno))

    # ---- name resolution
    def module_targets(self, mod, e, depth=0):
        """targets of an expression in the namespace of a module (no local variables)"""
        if isinstance(e, ast.Constant):
            return [("const",)]
        if not isinstance(e, (ast.Name, ast.Attribute)):
            return [OPAQUE]
        head, parts = _chain(e)
        if not isinstance(head, ast.Name):
            return [("method", parts[-1])]
        n = head.id
        if mod.assigned.get(n) is not None and n not in mod.funcs and n not in mod.classes and depth < 5:
            out = []                     # module-level alias: `chaini = chain.from_iterable`
            for t in self.module_targets(mod, mod.assigned[n], depth + 1):
                if parts:
                    t = ("dotted", _norm_dotted(t[1] + "." + ".".join(parts))) if t[0] == "dotted" else ("method", parts[-1])
                out.append(t)
            return out
        if n in mod.alias:
            return [("dotted", _norm_dotted(".".join([mod.alias[n]] + parts)))]
        if parts:
            return [("method", parts[-1])]
        if n in mod.funcs:
            return [("pkgfn", mod.funcs[n].qual)]
        if n in mod.classes or n in self.classes:
            return [("pkgclass", n)]
        if _is_det_builtin(n):
            return [("builtin", n)]
        return [("opaque", f"`{n}` is neither imported, nor a function/class of the package, nor a builtin known to be deterministic")]

    def pkg_funcs_dotted(self, d):
        """module-level package functions a dotted name inside the package may refer to"""
        if "." not in d:
            return []
        prefix, name = d.rsplit(".", 1)
        cands = self.by_name.get(name, [])
        best = [c for c in cands if c.mod.name == prefix or c.mod.name.startswith(prefix + ".")]
        return best or cands

    def family(self, name):
        """a package class and the package classes derived from it (by the bare names of their bases)"""
        fam, grew = {name}, True
        while grew:
            grew = False
            for k, defs in self.classes.items():
                if k not in fam and any(isinstance(b, (ast.Name, ast.Attribute)) and (_chain(b)[1] or [_chain(b)[0].id])[-1] in fam
                                        for _, cd in defs for b in cd.bases if isinstance(_chain(b)[0], ast.Name)):
                    fam.add(k)
                    grew = True
        return sorted(fam)

    # ---- effects
    def effects(self, fn, derived_params, ctx, stack):
        """effect list of one function body.  Calls of the function's own parameters appear as placeholders
        ("callparam", p, where) that the inlining caller resolves (`_Walker.pkg_call`)"""
        key = (fn.qual, frozenset(derived_params), ctx)
        if key in self.memo:
            return self.memo[key]
        if fn.qual in stack:
            return []          # recursion: the effects of the cycle are already listed once
        w = _Walker(self, fn, set(derived_params), stack + (fn.qual,))
        w.run(ctx)
        self.memo[key] = w.effs
        return w.effs

    def lambda_effects(self, fn, lam, stack):
        """effects of calling a lambda that is the default value of a parameter of `fn`"""
        w = _Walker(self, fn, set(), stack + (fn.qual,))
        w.expr(lam.body, "other")
        return w.effs

    def table(self):
        out = []
        for f in self.seeded:
            effs = [x if x[0] != "callparam" else
                    ("draw", "unknown", f"{x[-1]}  (parameter `{x[1]}` is called: a callable supplied by the caller)")
                    for x in self.effects(f, {"seed"}, "top", ())]
            maybe = sorted({x[1] for x in effs if x[0] == "maybeSeed"})
            effs = [x for x in effs if x[0] != "maybeSeed"]
            out.append(dict(key=f.key, qual=f.qual, file=f.mod.rel, line=f.node.lineno, public=f.public and not f.cls,
                            effs=effs, none_branch=f.none_branch, maybe_seed=maybe))
        # calls of functions whose `seed is None` branch has effects of its own are not modelled: be conservative
        nb = {e["key"] for e in out if e["none_branch"]}
        for e in out:
            new = []
            for x in e["effs"]:
                new.append(x)
                if x[0] == "callUnseeded" and x[1] in nb:
                    new.append(("draw", "unknown", f"{x[1]} has effects under `seed is None` (not modelled)"))
            e["effs"] = new
        return out


def _is_seed_test(test, derived):
    """'notnone' for `seed is not None`, 'none' for `seed is None`, else None"""
    if isinstance(test, ast.Compare) and len(test.ops) == 1 and isinstance(test.left, ast.Name) \
            and test.left.id in derived and isinstance(test.comparators[0], ast.Constant) \
            and test.comparators[0].value is None:
        if isinstance(test.ops[0], ast.IsNot):
            return "notnone"
        if isinstance(test.ops[0], ast.Is):
            return "none"
    # `isinstance(seed, (int, np.integer))` (also numbers.Integral): on the seed domain of C17's check - Python ints and numpy
    # integer scalars - this is the same test as `seed is not None`.  `isinstance(seed, int)` alone is NOT: numpy integers
    # fall through it, so a seeding call under it stays uncredited.
    if isinstance(test, ast.Call) and isinstance(test.func, ast.Name) and test.func.id == "isinstance" and len(test.args) == 2 \
            and not test.keywords and isinstance(test.args[0], ast.Name) and test.args[0].id in derived:
        ty = test.args[1]
        names = [_type_name(x) for x in (ty.elts if isinstance(ty, ast.Tuple) else [ty])]
        if "Integral" in names or ("int" in names and "integer" in names):
            return "notnone"
    return None


def _type_name(e):
    """last component of a type expression: int, np.integer -> integer, numbers.Integral -> Integral"""
    if isinstance(e, ast.Name):
        return e.id
    if isinstance(e, ast.Attribute):
        return e.attr
    return None


def _mentions(e, names):
    return any(isinstance(n, ast.Name) and n.id in names for n in ast.walk(e))


def _is_none(e):
    return isinstance(e, ast.Constant) and e.value is None


class _Walker:
    """ordered walk of one function body.  ctx: 'top' (unconditional), 'seedcond' (directly under
    `if seed is not None:`), 'other' (any other branch / loop / handler)."""

    def __init__(self, tr, fn, derived, stack):
        self.tr, self.fn, self.mod = tr, fn, fn.mod
        self.derived = set(derived)    # names whose value is a function of the seed
        self.seedp = set(derived)      # the seed parameter(s) themselves, for the `is not None` test
        self.gens = {}                 # variable -> source of the generator object it holds
        self.modseeded = set()         # module-level generator objects re-seeded with the seed earlier in this body
        self.effs = []
        self.stack = stack
        self.sink = self.effs
        a = fn.node.args
        self.kwparam = a.kwarg.arg if a.kwarg else None
        # local names.  `opaque`: holds a value the translator knows nothing about (results of calls, loop variables,
        # arguments supplied by the user ...): it shadows a module-level import of the same name, and calling it is an
        # unresolved call.  `alias`: name -> targets it may stand for (`layout = nx.spring_layout`, a parameter of an
        # inlined helper bound by its caller); several when the assignments stand in different branches.
        self.opaque = set()
        self.alias = {}
        self.local_funcs = {}          # nested def / named lambda -> node; walked where called or referenced
        self.local_seen = set()        # ... those walked at least once
        self.walking = []              # recursion guard for local functions
        # dicts known to carry seed-like keys: name -> {key: value expression}  (see `dict_store`)
        self.seed_dicts = {}
        self.fresh_dicts = set()       # local dicts created empty / from literals (setdefault on them is an insert)
        allp = [x.arg for x in a.posonlyargs + a.args + a.kwonlyargs]
        self.opaque |= {x.arg for x in (a.vararg, a.kwarg) if x is not None}
        for i, p in enumerate(allp):
            if i == 0 and fn.cls and not fn.is_static and not fn.is_classmethod and p == "self":
                self.alias[p] = [("pkginstance", fn.cls)]
            else:
                self.alias[p] = [("param", p)]

    def where(self, n):
        return f"{self.mod.rel}:{getattr(n, 'lineno', 0)}"

    def emit(self, kind, arg, node, extra=None):
        try:
            txt = ast.unparse(node)
        except Exception:  # noqa
            txt = "?"
        txt = " ".join(txt.split())
        self.sink.append((kind, arg, f"{self.where(node)}: {txt[:90]}") if extra is None else
                         (kind, arg, extra, f"{self.where(node)}: {txt[:90]}"))

    def unknown(self, node, why):
        """an unresolved call / escaping RNG reference: never dropped"""
        self.emit("draw", "unknown", node)
        try:
            txt = " ".join(ast.unparse(node).split())[:70]
        except Exception:  # noqa
            txt = "?"
        self.tr.notes.append(f"{self.where(node)}: `{txt}` -> draw unknown: {why}")

    def run(self, ctx):
        self.stmts(self.fn.node.body, ctx)
        # nested functions that were never called nor referenced by name: dead today, but listed (conservatively)
        for name in list(self.local_funcs):
            if name not in self.local_seen and not name.startswith("<default of "):
                self.walk_local(name, "other")

    # ---- name resolution (imports + local aliases + shadowing)
    def targets_of(self, e):
        """what a Name / Attribute chain may stand for, local aliases and shadowing included"""
        if isinstance(e, ast.Constant):
            return [("const",)]
        if not isinstance(e, (ast.Name, ast.Attribute)):
            return [("opaque", "the value of an expression (getattr / subscript / call result)")]
        head, parts = _chain(e)
        if not isinstance(head, ast.Name):
            return [("method", parts[-1])]
        n = head.id
        if n in self.alias or n in self.opaque or n in self.local_funcs:
            base = list(self.alias.get(n, []))
            if n in self.local_funcs and n not in self.alias:
                base.append(("localfn", n))
            if n in self.opaque:
                base.append(("opaque", f"`{n}` is a parameter / local variable: what it holds is not known"
                             if not self.alias.get(n) else f"`{n}` may also hold a value that is not followed"))
        else:
            return self.tr.module_targets(self.mod, e)
        if not parts:
            return base
        out = []
        for t in base:
            t2 = ("dotted", _norm_dotted(t[1] + "." + ".".join(parts))) if t[0] == "dotted" else ("method", parts[-1])
            if t2 not in out:
                out.append(t2)
        return out

    # ---- statements
    def stmts(self, body, ctx):
        for s in body:
            self.stmt(s, ctx)

    def forget(self, name):
        self.alias.pop(name, None)
        self.seed_dicts.pop(name, None)
        self.fresh_dicts.discard(name)

    def bind_opaque(self, target):
        for n in ast.walk(target):
            if isinstance(n, ast.Name):
                self.opaque.add(n.id)
                self.forget(n.id)

    def stmt(self, s, ctx):
        other = "other"
        if isinstance(s, (ast.FunctionDef, ast.AsyncFunctionDef)):
            for d in s.decorator_list:
                self.expr(d, ctx)
            for d in list(s.args.defaults) + [x for x in s.args.kw_defaults if x is not None]:
                self.expr(d, ctx)
            # the body runs when the function is called, not where it is defined: see `walk_local`
            self.local_funcs[s.name] = s
            self.local_seen.discard(s.name)
            self.opaque.discard(s.name)
            self.forget(s.name)
            if s.decorator_list:
                self.walk_local(s.name, other)       # a decorator may call it right away
        elif isinstance(s, ast.ClassDef):
            for d in s.decorator_list:
                self.expr(d, ctx)
            self.stmts(s.body, other)
            self.opaque.add(s.name)
        elif isinstance(s, ast.If):
            k = _is_seed_test(s.test, self.seedp)
            inner = "seedcond" if ctx in ("top", "seedcond") else other
            if k == "notnone":
                self.stmts(s.body, inner)
                self.none_branch(s.orelse)
            elif k == "none":
                self.none_branch(s.body)
                self.stmts(s.orelse, inner)
            else:
                self.expr(s.test, ctx)
                self.stmts(s.body, other)
                self.stmts(s.orelse, other)
        elif isinstance(s, (ast.For, ast.AsyncFor)):
            self.expr(s.iter, ctx)
            self.bind_opaque(s.target)
            self.stmts(s.body, other)
            self.stmts(s.orelse, other)
        elif isinstance(s, ast.While):
            self.expr(s.test, other)
            self.stmts(s.body, other)
            self.stmts(s.orelse, other)
        elif isinstance(s, (ast.With, ast.AsyncWith)):
            for it in s.items:
                self.expr(it.context_expr, ctx)
                if it.optional_vars is not None:
                    self.bind_opaque(it.optional_vars)
            self.stmts(s.body, ctx)
        elif isinstance(s, ast.Try) or s.__class__.__name__ == "TryStar":
            self.stmts(s.body, ctx)
            for h in s.handlers:
                if h.name:
                    self.opaque.add(h.name)
                self.stmts(h.body, other)
            self.stmts(s.orelse, other)
            self.stmts(s.finalbody, other)
        elif isinstance(s, ast.Match):
            self.expr(s.subject, ctx)
            for c in s.cases:
                for n in ast.walk(c.pattern):
                    for nm in (getattr(n, "name", None), getattr(n, "rest", None)):
                        if isinstance(nm, str):
                            self.opaque.add(nm)
                self.stmts(c.body, other)
        elif isinstance(s, (ast.Assign, ast.AnnAssign, ast.AugAssign)):
            self.assign(s, ctx)
        elif isinstance(s, ast.Delete):
            for t in s.targets:
                if isinstance(t, ast.Subscript) and isinstance(t.value, ast.Name):
                    key = t.slice.value if isinstance(t.slice, ast.Constant) else None
                    if key is None:
                        self.seed_dicts.pop(t.value.id, None)
                    else:
                        self.seed_dicts.get(t.value.id, {}).pop(key, None)
                self.expr(t, ctx)
        else:
            for c in ast.iter_child_nodes(s):
                if isinstance(c, ast.expr):
                    self.expr(c, ctx)
                elif isinstance(c, ast.stmt):
                    self.stmt(c, other)

    def assign(self, s, ctx):
        val = s.value
        if val is None:
            return
        if isinstance(val, ast.IfExp) and isinstance(s, (ast.Assign, ast.AnnAssign)):
            live = self.seed_ifexp(val, ctx)           # `rng = RandomState(seed) if seed is not None else np.random`
            if live is not None:
                s2 = ast.copy_location(ast.Assign(targets=list(s.targets if isinstance(s, ast.Assign) else [s.target]),
                                                  value=live), s)
                return self.assign(s2, "seedcond" if ctx in ("top", "seedcond") else "other")
        targets = s.targets if isinstance(s, ast.Assign) else [s.target]
        single = targets[0].id if (isinstance(s, (ast.Assign, ast.AnnAssign)) and len(targets) == 1
                                   and isinstance(targets[0], ast.Name)) else None
        # `d["seed"] = seed`
        if isinstance(s, ast.Assign) and len(targets) == 1 and isinstance(targets[0], ast.Subscript) \
                and isinstance(targets[0].value, ast.Name) and isinstance(targets[0].slice, ast.Constant):
            self.expr(val, ctx)
            self.dict_store(targets[0].value.id, targets[0].slice.value, val, ctx, overrides=True)
            return
        # 1. local alias of a module / function / class:   layout = nx.spring_layout ;  r = random ;  f = helper
        if single is not None and isinstance(val, (ast.Name, ast.Attribute)) and _is_name_chain(val) \
                and not (isinstance(val, ast.Name) and val.id in self.gens):
            ts = self.targets_of(val)
            if ts and all(t[0] in ("dotted", "pkgfn", "pkgclass", "pkgclassfam", "builtin", "localfn", "param", "pkginstance",
                                   "const", "walked") for t in ts):
                old = [] if ctx == "top" else list(self.alias.get(single, []))
                self.alias[single] = old + [t for t in ts if t not in old]
                if ctx == "top":
                    self.opaque.discard(single)
                    self.local_funcs.pop(single, None)
                self.seed_dicts.pop(single, None)
                self.fresh_dicts.discard(single)
                self.gens.pop(single, None)
                if _mentions(val, self.derived):          # `s = seed`
                    self.derived.add(single)
                elif single in self.derived:
                    self.derived.discard(single)
                    self.seedp.discard(single)
                return
        # 2. named lambda: like a nested def
        if single is not None and isinstance(val, ast.Lambda):
            for d in list(val.args.defaults) + [x for x in val.args.kw_defaults if x is not None]:
                self.expr(d, ctx)
            self.local_funcs[single] = val
            self.local_seen.discard(single)
            self.opaque.discard(single)
            self.forget(single)
            return
        # 3. anything else: evaluate, then the targets hold values the translator does not follow
        self.expr(val, ctx)
        names = [n.id for t in targets for n in ast.walk(t) if isinstance(n, ast.Name) and isinstance(n.ctx, ast.Store)]
        src = self.ctor_kind(val) if isinstance(val, ast.Call) else None
        if src is None and isinstance(val, ast.Name) and val.id in self.gens:
            src = self.gens[val.id]
        carried = self.dict_value(val, ctx) if single is not None else None
        for nm in names:
            if ctx == "top" and not isinstance(s, ast.AugAssign):
                self.alias.pop(nm, None)
                self.local_funcs.pop(nm, None)
            self.opaque.add(nm)
            self.seed_dicts.pop(nm, None)
            self.fresh_dicts.discard(nm)
            if src is not None:
                self.gens[nm] = src
            if _mentions(val, self.derived):
                self.derived.add(nm)
            elif nm in self.derived and not isinstance(s, ast.AugAssign):
                # `seed = None`, `seed = time.time()` ...: from here on the name no longer stands for the caller's seed
                # (also when the assignment is conditional: conservative)
                self.derived.discard(nm)
                self.seedp.discard(nm)
        if carried is not None:
            keys, fresh = carried
            if keys:
                self.seed_dicts[single] = keys
            if fresh:
                self.fresh_dicts.add(single)

    # ---- a seed travelling in a dict
    def dict_store(self, name, key, val, ctx, overrides):
        """`name[key] = val` (overrides=True) or `name.setdefault(key, val)`.
        `setdefault` does not replace a key that is already there.  It still sets the value when the dict is the
        function's own `**kwargs` and the key is a named parameter of the function (Python binds a keyword that matches
        a named parameter to that parameter, so the `kwargs` of a function with a parameter `seed` can never contain
        "seed"), or when the dict was created in this body without that key."""
        if key not in SEEDISH_KW:
            return
        cur = self.seed_dicts.get(name, {})
        if not overrides:
            own = name == self.kwparam and key in (self.fn.params + self.fn.kwonly)
            if key in cur or not (own or name in self.fresh_dicts):
                return
        if ctx in ("top", "seedcond") and not _is_none(val) and (_mentions(val, self.derived) or isinstance(val, ast.Constant)):
            self.seed_dicts.setdefault(name, {})[key] = val
        else:
            cur.pop(key, None)          # conditional / underived store: no longer known to carry the seed

    def dict_value(self, val, ctx):
        """(seed-like keys carried, created-here?) when `val` builds a dict: {...}, {**d, k: v}, dict(d, k=v), dict(k=v),
        d.copy(); None otherwise"""
        keys, fresh = {}, False
        ok = ctx in ("top", "seedcond")

        def good(v):
            return ok and not _is_none(v) and (_mentions(v, self.derived) or isinstance(v, ast.Constant))
        if isinstance(val, ast.Dict):
            fresh = all(k is not None for k in val.keys)
            for k, v in zip(val.keys, val.values):
                if k is None:
                    if isinstance(v, ast.Name):
                        keys.update(self.seed_dicts.get(v.id, {}))
                elif isinstance(k, ast.Constant) and k.value in SEEDISH_KW:
                    if good(v):
                        keys[k.value] = v
                    else:
                        keys.pop(k.value, None)
            return keys, fresh
        if isinstance(val, ast.Call) and isinstance(val.func, ast.Name) and val.func.id == "dict" \
                and self.targets_of(val.func) == [("builtin", "dict")]:
            fresh = not val.args
            for a in val.args:
                if isinstance(a, ast.Name):
                    keys.update(self.seed_dicts.get(a.id, {}))
            for k in val.keywords:
                if k.arg is None:
                    if isinstance(k.value, ast.Name):
                        keys.update(self.seed_dicts.get(k.value.id, {}))
                    fresh = False
                elif k.arg in SEEDISH_KW:
                    if good(k.value):
                        keys[k.arg] = k.value
                    else:
                        keys.pop(k.arg, None)
            return keys, fresh
        if isinstance(val, ast.Call) and isinstance(val.func, ast.Attribute) and val.func.attr == "copy" \
                and isinstance(val.func.value, ast.Name) and val.func.value.id in self.seed_dicts and not val.args:
            return dict(self.seed_dicts[val.func.value.id]), False
        return None

    def dict_method(self, c, ctx):
        """`d.setdefault("seed", seed)`, `d.update(seed=seed)`, `d.update({"seed": seed})`, `d.pop("seed")`, `d.clear()`"""
        f = c.func
        if not (isinstance(f, ast.Attribute) and isinstance(f.value, ast.Name)):
            return
        name = f.value.id
        if f.attr == "setdefault" and len(c.args) == 2 and isinstance(c.args[0], ast.Constant):
            self.dict_store(name, c.args[0].value, c.args[1], ctx, overrides=False)
        elif f.attr == "update":
            for k in c.keywords:
                if k.arg is not None:
                    self.dict_store(name, k.arg, k.value, ctx, overrides=True)
                else:
                    self.seed_dicts.pop(name, None)        # update(**something): may overwrite the seed
            for a in c.args:
                if isinstance(a, ast.Dict) and all(isinstance(k, ast.Constant) for k in a.keys):
                    for k, v in zip(a.keys, a.values):
                        self.dict_store(name, k.value, v, ctx, overrides=True)
                elif isinstance(a, ast.Name) and a.id in self.seed_dicts and ctx in ("top", "seedcond"):
                    self.seed_dicts.setdefault(name, {}).update(self.seed_dicts[a.id])
                else:
                    self.seed_dicts.pop(name, None)        # update(<unknown mapping>): may overwrite the seed
        elif f.attr in ("pop", "popitem", "clear", "__delitem__", "__setitem__"):
            key = c.args[0].value if (f.attr == "pop" and c.args and isinstance(c.args[0], ast.Constant)) else None
            if key is None:
                self.seed_dicts.pop(name, None)
            else:
                self.seed_dicts.get(name, {}).pop(key, None)

    def star_kwargs(self, c):
        """seed-like keywords that reach the callee through `**d`"""
        out = {}
        for k in c.keywords:
            if k.arg is None:
                if isinstance(k.value, ast.Name):
                    out.update(self.seed_dicts.get(k.value.id, {}))
                elif isinstance(k.value, ast.Dict):
                    got = self.dict_value(k.value, "top")
                    out.update(got[0] if got else {})
        return out

    def none_branch(self, body):
        """statements that run only when seed is None: not part of the seeded effect list"""
        if not body:
            return
        saved, self.sink = self.sink, []
        state = self.save_state()           # what this branch assigns does not exist in a call with a concrete seed
        self.stmts(body, "other")
        self.restore_state(state)
        found, self.sink = self.sink, saved
        if found:
            self.fn.none_branch = True
            self.tr.notes.append(f"{self.where(body[0])}: {len(found)} RNG effect(s) only when seed is None (not in the table)")

    _STATE = ("derived", "seedp", "gens", "modseeded", "opaque", "alias", "local_funcs", "local_seen", "seed_dicts",
              "fresh_dicts")

    def save_state(self):
        out = {}
        for k in self._STATE:
            v = getattr(self, k)
            out[k] = {a: (list(b) if isinstance(b, list) else dict(b) if isinstance(b, dict) else b) for a, b in v.items()} \
                if isinstance(v, dict) else set(v)
        return out

    def restore_state(self, state):
        for k, v in state.items():
            setattr(self, k, v)

    def seed_ifexp(self, e, ctx):
        """`a if seed is not None else b` (or `... if seed is None else ...`): the part that is evaluated in a call with a
        concrete seed, after accounting for the other part like an `else:` branch of the statement form; None when the
        test is not a test of the seed"""
        k = _is_seed_test(e.test, self.seedp)
        if k is None:
            return None
        live, dead = (e.body, e.orelse) if k == "notnone" else (e.orelse, e.body)
        saved, self.sink = self.sink, []
        state = self.save_state()
        self.expr(dead, "other")
        self.restore_state(state)
        found, self.sink = self.sink, saved
        if found:
            self.fn.none_branch = True
            self.tr.notes.append(f"{self.where(e)}: {len(found)} RNG effect(s) only when seed is None (not in the table)")
        return live

    def modgen_call(self, name, c, ctx):
        """method call on a generator object created at module level (`_RNG = random.Random()`): it persists between calls
        like the global generators do, so its draws are determined by the seed only after it has been re-seeded with the
        seed in this body (then they are accounted like draws from a generator created from the seed: `local`)"""
        meth = c.func.attr
        if meth in ("getstate", "get_state"):
            return
        if self.mod.modgens.get(name) is None:
            return self.unknown(c, f"module-level generator `{name}` is assigned more than once / from OS entropy only")
        if meth == "seed":
            if not self.seed_arg_ok(c):
                self.modseeded.discard(name)
                return self.unknown(c, f"`{name}.seed(...)` with an argument that is not a function of the seed")
            if ctx == "other":
                self.tr.notes.append(f"{self.where(c)}: seeding of module-level generator `{name}` ignored: not unconditional "
                                     "and not directly under `if seed is not None:`")
                return
            self.modseeded.add(name)
            return self.emit("seed", "local", c, extra=(ctx == "seedcond"))
        if meth in ("setstate", "set_state"):
            self.modseeded.discard(name)
            return self.unknown(c, f"`{name}.{meth}(...)`: state of a module-level generator set from a value that is not followed")
        if name in self.modseeded:
            return self.emit("draw", "local", c)
        self.unknown(c, f"module-level generator `{name}` is used before it is re-seeded with the seed in this body")

    # ---- nested functions
    def walk_local(self, name, ctx):
        node = self.local_funcs.get(name)
        if node is None:
            return
        self.local_seen.add(name)
        if name in self.walking:
            return
        self.walking.append(name)
        try:
            a = node.args
            for x in a.posonlyargs + a.args + a.kwonlyargs + [y for y in (a.vararg, a.kwarg) if y is not None]:
                if x.arg not in self.derived:
                    self.opaque.add(x.arg)
                    self.forget(x.arg)
            if isinstance(node, ast.Lambda):
                self.expr(node.body, ctx)
            else:
                self.stmts(node.body, ctx)
        finally:
            self.walking.pop()

    # ---- expressions
    def expr(self, e, ctx):
        if isinstance(e, ast.Call):
            head, _ = _chain(e.func)
            if not isinstance(head, ast.Name):
                self.expr(head, ctx)         # the receiver / callee is itself computed: look inside it
            for a in e.args:
                self.expr(a, ctx)
            for k in e.keywords:
                self.expr(k.value, ctx)
            self.call(e, ctx)
        elif isinstance(e, ast.Lambda):
            self.expr(e.body, "other")
        elif isinstance(e, (ast.IfExp,)):
            live = self.seed_ifexp(e, ctx)
            if live is not None:
                self.expr(live, "seedcond" if ctx in ("top", "seedcond") else "other")
                return
            self.expr(e.test, ctx)
            self.expr(e.body, "other")
            self.expr(e.orelse, "other")
        elif isinstance(e, (ast.ListComp, ast.SetComp, ast.GeneratorExp, ast.DictComp)):
            for g in e.generators:
                self.expr(g.iter, ctx)
                self.bind_opaque(g.target)
                for c in g.ifs:
                    self.expr(c, "other")
            for part in ([e.key, e.value] if isinstance(e, ast.DictComp) else [e.elt]):
                self.expr(part, "other")
        elif isinstance(e, ast.NamedExpr):
            self.expr(e.value, ctx)
            self.bind_opaque(e.target)
        elif isinstance(e, (ast.Name, ast.Attribute)) and _is_name_chain(e):
            if isinstance(getattr(e, "ctx", None), ast.Load):
                self.reference(e, ctx)
        else:
            for c in ast.iter_child_nodes(e):
                if isinstance(c, ast.expr):
                    self.expr(c, ctx)
                elif isinstance(c, ast.comprehension):
                    self.expr(c.iter, ctx)

    def can_draw(self, t):
        """a reason when calling target `t` may consume randomness, else None"""
        if t[0] == "dotted":
            d = t[1]
            if d in ("random", "numpy.random") or d in GEN_CTORS or d in ENTROPY_CTORS or d in ENTROPY_CALLS \
                    or (d.startswith("random.") and d[7:] not in PY_NEUTRAL) \
                    or (d.startswith("numpy.random.") and d[13:] not in NP_NEUTRAL) \
                    or (d in LIB and LIB[d][0]):
                return f"`{d}`"
            if d == PKG or d.startswith(PKG + "."):
                for callee in self.tr.pkg_funcs_dotted(d):
                    if callee.has_seed or self.tr.effects(callee, set(), "other", self.stack):
                        return f"the package function `{callee.qual}` (which has RNG effects)"
        elif t[0] == "pkgfn":
            callee = self.tr.by_qual[t[1]]
            if callee.has_seed or self.tr.effects(callee, set(), "other", self.stack):
                return f"the package function `{callee.qual}` (which has RNG effects)"
        return None

    def reference(self, e, ctx):
        """a function / module mentioned without being called (passed on, stored in a container, returned): if it can
        draw, the place where it is eventually called is out of sight -> `draw unknown` here"""
        for t in self.targets_of(e):
            if t[0] == "localfn":
                self.walk_local(t[1], "other")
                continue
            why = self.can_draw(t)
            if why:
                self.unknown(e, f"reference to {why} escapes (it is not called here)")
                break

    def ctor_kind(self, call):
        """source of the generator object a constructor call creates, None if `call` is not such a constructor"""
        if not isinstance(call.func, (ast.Name, ast.Attribute)):
            return None
        kinds = {self._ctor_kind_d(call, t[1]) if t[0] == "dotted" else None for t in self.targets_of(call.func)}
        if len(kinds) == 1:
            return kinds.pop()
        return "unknown" if kinds - {None} else None

    def _ctor_kind_d(self, call, d):
        if d in ENTROPY_CTORS:
            return "osEntropy"
        if d not in GEN_CTORS:
            return None
        vals = list(call.args) + [k.value for k in call.keywords]
        if not vals or all(_is_none(v) for v in vals):
            return "osEntropy"
        if any(_mentions(v, self.derived) for v in vals):
            return "local"
        if any(isinstance(v, ast.Name) and v.id in self.gens for v in vals):
            return next(self.gens[v.id] for v in vals if isinstance(v, ast.Name) and v.id in self.gens)
        if all(isinstance(v, ast.Constant) for v in vals):
            return "local"          # a literal seed: deterministic
        return "unknown"

    def seed_arg_ok(self, call):
        vals = list(call.args) + [k.value for k in call.keywords]
        if not vals or all(_is_none(v) for v in vals):
            return False
        for v in vals:
            for n in ast.walk(v):
                if isinstance(n, ast.Call) and not (isinstance(n.func, ast.Name) and n.func.id in PURE_BUILTINS):
                    return False
        return any(_mentions(v, self.derived) or isinstance(v, ast.Constant) for v in vals)

    def do_seed(self, src, call, ctx):
        if not self.seed_arg_ok(call):
            self.emit("draw", "unknown", call)      # reseeding from entropy / from something not tied to the seed
            self.tr.notes.append(f"{self.where(call)}: seeding call whose argument is not a function of the seed -> draw unknown")
        elif ctx == "other":
            self.tr.notes.append(f"{self.where(call)}: seeding of {src} ignored: not unconditional and not directly under `if seed is not None:`")
            # not an effect of the model (the discipline gets no credit for it); kept aside so that the dynamic validation knows
            # that this function MAY reseed the source (e.g. `if isinstance(seed, int): random.seed(seed)`)
            self.emit("maybeSeed", src, call)
        else:
            self.emit("seed", src, call, extra=(ctx == "seedcond"))

    # ---- calls
    def call(self, c, ctx):
        """classify one call site.  The callee is resolved through imports and local aliases to its targets; every target
        is applied (a name assigned in two branches stands for both)."""
        self.dict_method(c, ctx)
        f = c.func
        # 0. the callee is computed: getattr(x, n)(...), table[k](...), f()(...), (a or b)(...)
        if not isinstance(f, (ast.Name, ast.Attribute)):
            return self.unknown(c, "the callee is the value of an expression (getattr / subscript / call result)")
        # 1. methods of generator objects
        if isinstance(f, ast.Attribute):
            base = f.value
            if isinstance(base, ast.Name) and base.id in self.gens:
                return self.emit("draw", self.gens[base.id], c)
            if isinstance(base, ast.Name) and base.id in self.mod.modgens and base.id not in self.alias \
                    and base.id not in self.opaque and base.id not in self.local_funcs:
                return self.modgen_call(base.id, c, ctx)
            if isinstance(base, ast.Call) and self.ctor_kind(base) is not None:
                return self.emit("draw", self.ctor_kind(base), c)
        for t in self.targets_of(f):
            self.apply(t, c, ctx)

    def apply(self, t, c, ctx):
        k = t[0]
        if k == "dotted":
            kind = self._ctor_kind_d(c, t[1])
            if kind is not None:                  # creation of a generator object
                if kind == "local":
                    self.emit("seed", "local", c, extra=(ctx == "seedcond"))
                return
            return self.dotted_call(t[1], c, ctx)
        if k == "pkgfn":
            return self.pkg_call(self.tr.by_qual[t[1]], c, ctx)
        if k in ("pkgclass", "pkgclassfam"):
            for name in (self.tr.family(t[1]) if k == "pkgclassfam" else [t[1]]):
                self.pkg_ctor(name, c, ctx)
            return
        if k == "localfn":
            return self.walk_local(t[1], ctx)
        if k in ("builtin", "const", "walked"):
            return
        if k == "method":
            return self.method_call(c, ctx)
        if k == "param":
            return self.emit("callparam", t[1], c)       # resolved by the caller that inlines this body
        if k == "pkginstance":
            for name in self.tr.family(t[1]):
                for meth in [m for m in self.tr.methods.get("__call__", []) if m.cls == name]:
                    self.pkg_call(meth, c, ctx, method=True)
            return
        self.unknown(c, t[1] or "what the callee holds is not known")

    def apply_deferred(self, t, c, txt):
        """a helper inlined at call `c` calls one of its parameters (at `txt`), which stands for target `t`.  The arguments
        of that inner call are out of sight here, so anything that can draw is `draw unknown`."""
        k = t[0]
        if k == "param":
            return self.sink.append(("callparam", t[1], f"{txt}  <- {self.where(c)}"))
        if k in ("builtin", "const", "walked"):
            return
        why = None
        if k in ("opaque", "method", "localfn"):
            why = "the callable passed to it is not known"
        elif k in ("dotted", "pkgfn"):
            why = self.can_draw(t)
            if why is None and k == "dotted":
                d = t[1]
                if d == PKG or d.startswith(PKG + "."):
                    if not self.tr.pkg_funcs_dotted(d):
                        fake = ast.copy_location(ast.Call(func=ast.Name(id="_", ctx=ast.Load()), args=[], keywords=[]), c)
                        if not self.pkg_ctor(d.rsplit(".", 1)[-1], fake, "other"):
                            why = f"`{d}` is not a function or class the package defines"
                elif d in LIB or d.startswith(LIB_PREFIXES):
                    if (LIB[d] if d in LIB else self.introspect(d))[0]:
                        why = f"`{d}` takes a seed-like parameter"
                elif not d.startswith(PURE_NAMESPACES):
                    why = f"`{d}`: no table classifies this module"
        elif k in ("pkgclass", "pkgclassfam", "pkginstance"):
            fake = ast.copy_location(ast.Call(func=ast.Name(id="_", ctx=ast.Load()), args=[], keywords=[]), c)
            return self.apply(t, fake, "other")
        elif k == "pkgresult":
            fake = ast.copy_location(ast.Call(func=ast.Name(id="_", ctx=ast.Load()), args=[], keywords=[]), c)
            for meth in self.tr.methods.get("__call__", []):
                self.pkg_call(meth, fake, "other", method=True)
            return
        if why:
            self.sink.append(("draw", "unknown", f"{txt}  <- {self.where(c)}"))
            self.tr.notes.append(f"{self.where(c)}: a helper inlined here calls its parameter ({txt}) -> draw unknown: {why}")

    def dotted_call(self, d, c, ctx):
        """the callee resolves through the imports to the dotted name `d`"""
        f = c.func
        # 2. stdlib random / numpy.random module level
        if d.startswith("random."):
            name = d[len("random."):]
            if name == "seed":
                return self.do_seed("pyGlobal", c, ctx)
            if name in PY_NEUTRAL:
                return
            return self.emit("draw", "pyGlobal" if name in PY_DRAWS else "unknown", c)
        if d.startswith("numpy.random."):
            name = d[len("numpy.random."):]
            if name == "seed":
                return self.do_seed("npGlobal", c, ctx)
            if name in NP_NEUTRAL:
                return
            return self.emit("draw", "npGlobal" if name in NP_DRAWS else "unknown", c)
        if d in ENTROPY_CALLS:
            return self.emit("draw", "osEntropy", c)
        # 3. libraries
        if d in LIB or d.startswith(LIB_PREFIXES):
            return self.lib_call(d, c)
        # 4. the package itself
        if d == PKG or d.startswith(PKG + "."):
            cands = self.tr.pkg_funcs_dotted(d)
            if cands:
                for callee in cands:
                    self.pkg_call(callee, c, ctx)
                return
            if self.pkg_ctor(d.rsplit(".", 1)[-1], c, ctx):
                return
            if isinstance(f, ast.Attribute) and self.tr.methods.get(f.attr):     # Hypergraph.method(H, ...) and the like
                for meth in self.tr.methods[f.attr]:
                    self.pkg_call(meth, c, ctx, method=True, explicit_self=True)
                return
            return self.unknown(c, f"`{d}` is not a function or class the package defines")
        if d.startswith(PURE_NAMESPACES):
            return
        self.unknown(c, f"`{d}`: no table classifies this module")

    def pkg_ctor(self, name, c, ctx):
        """constructor of a package class: its __init__ (when the class defines one) is inlined"""
        found = False
        for m, cls in self.tr.classes.get(name, []):
            found = True
            for init in [x for x in self.tr.methods.get("__init__", []) if x.cls == cls.name and x.mod is m]:
                self.pkg_call(init, c, ctx, method=True)
        return found

    def method_call(self, c, ctx):
        """`recv.name(...)` where the type of `recv` is not known: resolved by name over the classes of the package"""
        f = c.func
        chain, b = [], f.value
        while isinstance(b, ast.Attribute):
            chain.append(b.attr)
            b = b.value
        if isinstance(b, ast.Name):
            chain.append(b.id)
        if any(x in RNGISH_NAMES or x.endswith("_rng") for x in chain):
            return self.unknown(c, "method of an RNG-looking object that is not tracked")
        if f.attr in RNG_METHOD_NAMES:
            return self.unknown(c, f"`.{f.attr}()` on a receiver of unknown type is what generator objects offer")
        if f.attr == "__class__":                 # type(x)(...) spelled x.__class__(...): a constructor of the package
            recv_is_self = isinstance(f.value, ast.Name) and f.value.id in ("self", "cls") and self.fn.cls
            names = self.tr.family(self.fn.cls) if recv_is_self else sorted(self.tr.classes)
            for name in names:
                self.pkg_ctor(name, c, ctx)
            return
        meths = self.tr.methods.get(f.attr, [])
        attrs = self.tr.class_attrs.get(f.attr, [])
        if meths or attrs:
            for meth in meths:
                self.pkg_call(meth, c, ctx, method=True)
            for t in attrs:                       # `self._node_dict_factory()`: a class-level alias
                if t[0] == "method":
                    self.unknown(c, f"class attribute `{f.attr}` holds a value that is not followed")
                else:
                    self.apply(t, c, ctx)
            return
        if f.attr in DET_METHODS:
            return
        self.unknown(c, f"`.{f.attr}()`: receiver of unknown type, no class of the package defines it, not on the whitelist")

    def lib_call(self, d, c):
        kws = {k.arg: k.value for k in c.keywords if k.arg}
        for key, v in self.star_kwargs(c).items():
            kws.setdefault(key, v)                       # `**kwargs` known to carry the seed (see `dict_store`)
        if d in LIB:
            params, default = LIB[d]
        else:
            params, default = self.introspect(d)
        given = {p: kws[p] for p in params if p in kws and not _is_none(kws[p])}
        pos = self.positional_binding(d, c, params)
        given.update({p: v for p, v in pos.items() if not _is_none(v)})
        if not params:
            return
        if "v0" in given:
            return                      # explicit start vector: deterministic given its value
        if not given:
            if default is not None:
                self.emit("draw", default, c)
            return
        v = next(iter(given.values()))
        if isinstance(v, ast.Name) and v.id in self.gens:
            return self.emit("draw", self.gens[v.id], c)
        if isinstance(v, ast.Call) and self.ctor_kind(v) is not None:
            return self.emit("draw", self.ctor_kind(v), c)
        if _mentions(v, self.derived) or isinstance(v, ast.Constant):
            return self.emit("draw", "local", c)
        self.emit("draw", "unknown", c)

    def _import(self, d):
        import importlib
        parts = d.split(".")
        for i in range(len(parts) - 1, 0, -1):
            try:
                o = importlib.import_module(".".join(parts[:i]))
            except Exception:  # noqa
                continue
            try:
                for p in parts[i:]:
                    o = getattr(o, p)
                return o
            except AttributeError:
                return None
        return None

    def introspect(self, d):
        """library function outside LIB: if its signature has a seed-like parameter it draws; which source it uses
        without one is not known here -> `unknown`"""
        import inspect
        try:
            sig = inspect.signature(self._import(d))
        except Exception:  # noqa
            return (SEEDISH_KW, None)          # not importable: only judge by the keywords given
        ps = tuple(p for p in sig.parameters if p in SEEDISH_KW)
        return (ps, "unknown") if ps else ((), None)

    def positional_binding(self, d, c, params):
        import inspect
        if not c.args or not params:
            return {}
        try:
            names = list(inspect.signature(self._import(d)).parameters)
        except Exception:  # noqa
            return {}
        return {names[i]: a for i, a in enumerate(c.args) if i < len(names) and names[i] in params
                and not isinstance(a, ast.Starred)}

    def binding(self, e):
        """targets handed to an inlined helper for one argument expression"""
        if isinstance(e, ast.Lambda):
            return [("walked",)]              # `expr` has walked its body where it is written
        if isinstance(e, ast.Constant):
            return [("const",)]
        if isinstance(e, (ast.Name, ast.Attribute)) and _is_name_chain(e):
            out = []
            for t in self.targets_of(e):
                t = ("walked",) if t[0] == "localfn" else (OPAQUE if t[0] in ("opaque", "method") else t)
                if t not in out:
                    out.append(t)
            return out
        if isinstance(e, ast.Call) and isinstance(e.func, ast.Name) \
                and any(t[0] in ("pkgclass", "pkgclassfam") for t in self.targets_of(e.func)):
            return [("pkginstance", t[1]) for t in self.targets_of(e.func) if t[0] in ("pkgclass", "pkgclassfam")]
        if isinstance(e, ast.Call) and isinstance(e.func, (ast.Name, ast.Attribute)) and _is_name_chain(e.func):
            # the result of a function of the package (`from_hyperedge_list(data, empty_dihypergraph(create_using))`): the call
            # itself is walked where it is written (`expr`), and a function of the package can hand out an RNG callable only by
            # mentioning one - which `reference` reports as `draw unknown` inside it.  Calling the result is therefore resolved
            # like a method call on a receiver of unknown type: by name (`__call__`) over the classes of the package.
            ts = self.targets_of(e.func)
            if ts and all(t[0] == "pkgfn" or (t[0] == "dotted" and (t[1] == PKG or t[1].startswith(PKG + ".")) and
                                              self.tr.pkg_funcs_dotted(t[1])) for t in ts):
                return [("pkgresult", "")]
        return [OPAQUE]

    def pkg_call(self, callee, c, ctx, method=False, explicit_self=False):
        skip_self = method and not explicit_self and not callee.is_static and callee.params[:1] in (["self"], ["cls"])
        params = callee.params[1:] if skip_self else callee.params
        bound = {}
        for i, a in enumerate(c.args):
            if isinstance(a, ast.Starred):
                break
            if i < len(params):
                bound[params[i]] = a
        for key, v in self.star_kwargs(c).items():
            bound.setdefault(key, v)
        for k in c.keywords:
            if k.arg:
                bound[k.arg] = k.value
        if callee.has_seed:
            v = bound.get("seed")
            if v is None or _is_none(v):
                self.emit("callUnseeded", callee.key, c)
            else:
                self.emit("forwardSeed", callee.key, c)
                if not (_mentions(v, self.derived) or isinstance(v, ast.Constant)):
                    self.unknown(c, "the seed passed on is not a function of this function's seed")
            return
        dp = {p for p, v in bound.items() if _mentions(v, self.derived)}
        star = any(isinstance(a, ast.Starred) for a in c.args) or any(k.arg is None for k in c.keywords)
        for e in self.tr.effects(callee, dp, ctx, self.stack):
            if e[0] != "callparam":
                self.sink.append(e[:-1] + (f"{e[-1]}  <- {self.where(c)}",))
                continue
            # the helper calls its parameter p: what did this call site pass for it?
            p, txt = e[1], e[-1]
            if p in bound:
                ts = self.binding(bound[p])
            elif star:
                ts = [OPAQUE]          # *args / **kwargs may bind it to anything
            elif p in callee.defaults():
                d = callee.defaults()[p]
                if isinstance(d, ast.Lambda):
                    for x in self.tr.lambda_effects(callee, d, self.stack):
                        self.sink.append(x[:-1] + (f"{x[-1]}  <- {txt}  <- {self.where(c)}",))
                    continue
                ts = self.tr.module_targets(callee.mod, d)
            elif callee.cls and callee.params[:1] == [p] and callee.is_classmethod:
                ts = [("pkgclassfam", callee.cls)]
            else:
                ts = [OPAQUE]
            for t in ts:
                self.apply_deferred(t, c, txt)


# ----------------------------------------------------------------------------------------------------------

def lean_eff(e):
    if e[0] == "seed":
        return f".seed .{_src(e[1])} {'true' if e[2] else 'false'}"
    if e[0] == "draw":
        return f".draw .{_src(e[1])}"
    return f'.{e[0]} "{e[1]}"'


def _src(s):
    return "«local»" if s == "local" else s


# ----------------------------------------------------------------------------------------------------------
# Independent view of "the public functions with a `seed` parameter": import the package, ask inspect.signature.
# Nothing here looks at the AST or at the table.

class TreeMismatch(Exception):
    """`import xgi` is not the tree the translator reads"""


def _same_tree(repo):
    import xgi
    return os.path.realpath(os.path.dirname(xgi.__file__)) == os.path.realpath(os.path.join(repo, PKG))


def _origin(o):
    """(module name, plain name or None) of a callable, looking through functools.partial and wrappers"""
    import functools
    import inspect
    seen = 0
    while isinstance(o, (functools.partial, functools.partialmethod)) and seen < 10:
        o, seen = o.func, seen + 1
    try:
        o = inspect.unwrap(o)
    except Exception:  # noqa
        pass
    return getattr(o, "__module__", None) or "", getattr(o, "__name__", None)


def introspect_here():
    """{name: callable} of every public callable of the imported package that has a parameter `seed`:
    attributes of `xgi` and of every module `xgi.*` none of whose path components starts with `_` (this covers
    `xgi.__all__` and `dir(xgi)`), plus public methods (and `__init__`) of the public classes found that way.
    The name is the function's own `__name__` when the defining module exposes it under that name (this is the name of the
    `def` the AST translator sees), else the attribute name it was found under (functools.partial objects, functions made
    by factories); when two different callables share a name both get their module-qualified name.
    Returns (found, private, errors): `private` = seeded functions met under an underscore name (evidence only)."""
    import importlib
    import inspect
    import pkgutil
    import xgi
    errors, mods = [], [xgi]
    for mi in pkgutil.walk_packages(xgi.__path__, PKG + "."):
        if any(part.startswith("_") for part in mi.name.split(".")):
            continue
        try:
            mods.append(importlib.import_module(mi.name))
        except Exception as e:  # noqa
            errors.append(f"{mi.name}: {type(e).__name__}: {e}")

    def has_seed(o):
        try:
            return "seed" in inspect.signature(o).parameters
        except (TypeError, ValueError):
            return False

    recs, private = {}, {}          # id(callable) -> (name, qualified, callable)
    for m in mods:
        for attr, o in list(vars(m).items()):
            if inspect.ismodule(o):
                continue
            if inspect.isclass(o):
                if attr.startswith("_") or not (getattr(o, "__module__", "") or "").startswith(PKG):
                    continue
                for a, v in list(vars(o).items()):
                    f = v.__func__ if isinstance(v, (staticmethod, classmethod)) else v
                    if (a == "__init__" or not a.startswith("_")) and inspect.isfunction(f) and has_seed(f):
                        recs.setdefault(id(f), (f"{o.__name__}.{a}", f"{o.__module__}.{o.__name__}.{a}", getattr(o, a)))
                continue
            if not callable(o) or not has_seed(o):
                continue
            omod, oname = _origin(o)
            if not (omod == PKG or omod.startswith(PKG + ".")):
                continue
            if attr.startswith("_"):
                private.setdefault(id(o), (attr, f"{m.__name__}.{attr}", o))
                continue
            own = oname is not None and getattr(sys.modules.get(getattr(o, "__module__", None) or ""), oname, None) is o
            if own and oname.startswith("_"):
                own = False                       # a private def exported under a public name: known by the public one
            name = oname if own else attr
            recs.setdefault(id(o), (name, f"{getattr(o, '__module__', None) if own else m.__name__}.{name}", o))
    by_name = {}
    for name, qual, o in recs.values():
        by_name.setdefault(name, []).append((qual, o))
    found = {}
    for name, lst in by_name.items():
        if len(lst) == 1:
            found[name] = lst[0][1]
        else:
            for qual, o in lst:
                found[qual] = o
    return found, {n: o for n, _, o in private.values()}, errors


def introspect_public(repo):
    """sorted names of the public seeded callables of the package in tree `repo` (see `introspect_here`), and how they
    were obtained.  In-process when `import xgi` is that tree (./check puts XGI_REPO first on PYTHONPATH); otherwise in a
    fresh interpreter with PYTHONPATH=<repo> - never mixing the AST of one tree with the import of another."""
    import json
    import subprocess
    repo = os.path.realpath(repo)
    try:
        here = _same_tree(repo)
    except Exception:  # noqa
        here = False
    if here:
        found, _, errors = introspect_here()
        return sorted(found), f"import xgi (in process) from {repo}", errors
    code = ("import json, sys; sys.path.insert(0, %r); from harness import c17_translate as T; "
            "ok = T._same_tree(%r); f, p, e = T.introspect_here() if ok else ({}, {}, []); "
            "print('C17-INTROSPECT ' + json.dumps([ok, sorted(f), e]))" % (VERIF, repo))
    env = dict(os.environ, PYTHONPATH=repo)
    env.pop("XGI_REPO", None)
    p = subprocess.run([sys.executable, "-c", code], cwd="/", env=env, capture_output=True, text=True, timeout=300)
    line = next((l for l in p.stdout.split("\n") if l.startswith("C17-INTROSPECT ")), None)
    if line is None:
        raise TreeMismatch(f"cannot import xgi from {repo}: {p.stderr.strip()[-400:]}")
    ok, names, errors = json.loads(line[len("C17-INTROSPECT "):])
    if not ok:
        raise TreeMismatch(f"`import xgi` with PYTHONPATH={repo} does not resolve to {repo}/xgi; refusing to pair the AST of "
                           "one tree with the import of another")
    return names, f"import xgi (fresh interpreter, PYTHONPATH={repo})", errors


def _lean_str(s):
    return '"' + s.replace("\\", "\\\\").replace('"', '\\"') + '"'


def render(tab, notes, introspected=None):
    L = ["/-", "  GENERATED by harness/c17_translate.py from the current Python source of xgi - do not edit.",
         "  Per function with a `seed` parameter: the ordered RNG effects of a call with a concrete seed.", "-/",
         "import XgiModel.C17.Rng", "", "namespace Xgi.C17.SeedTable", "open Xgi.C17", ""]
    L.append("def fns : Table := [")
    for i, e in enumerate(tab):
        L.append(f"  -- {e['qual']}  ({e['file']}:{e['line']})")
        if not e["effs"]:
            L.append(f'  ("{e["key"]}", []){"," if i < len(tab) - 1 else ""}')
            continue
        L.append(f'  ("{e["key"]}", [')
        for j, x in enumerate(e["effs"]):
            L.append(f"    {lean_eff(x)}{',' if j < len(e['effs']) - 1 else ' '}  -- {x[-1]}")
        L.append(f"  ]){',' if i < len(tab) - 1 else ''}")
    L.append("]")
    L.append("")
    L.append("/-- the entries of `fns` that the AST scan itself regards as public.  Rendered from the same table as `fns`: used by")
    L.append("    no theorem (anything said about it would hold by construction); the driver reports it for comparison. -/")
    L.append("def «public» : List String := [" + ", ".join(f'"{e["key"]}"' for e in tab if e["public"]) + "]")
    L.append("")
    L.append("/-- NOT derived from `fns`, nor from the AST: obtained by importing the package from the same tree and listing, with")
    L.append("    `inspect.signature`, every public callable that has a parameter `seed` - attributes of `xgi` and of every public")
    L.append("    module `xgi.*` (hence all of `xgi.__all__` / `dir(xgi)`), and public methods of public classes.")
    L.append("    The import is checked to resolve to the very tree the table was translated from. -/")
    L.append("def introspected : List String := [" + ", ".join(_lean_str(n) for n in (introspected or [])) + "]")
    L.append("")
    if notes:
        L.append("/- translator notes:")
        L += [f"  {n}" for n in notes]
        L.append("-/")
    L.append("end Xgi.C17.SeedTable")
    return "\n".join(L) + "\n"


LAST = {}       # what the most recent `translate` produced (the harness reads it after build_and_audit ran it under the lock)


def translate(repo=None, write=True):
    """returns (table, notes, changed); details of the run (introspected names ...) in `LAST`"""
    tr = Translator(repo)
    tab = tr.table()
    names, how, errors = introspect_public(tr.repo)
    notes = sorted(set(tr.notes)) + [f"introspection: module not importable: {e}" for e in errors]
    text = render(tab, notes, introspected=names)
    changed = False
    if write:
        os.makedirs(os.path.dirname(OUT_FILE), exist_ok=True)
        if not os.path.exists(OUT_FILE) or open(OUT_FILE, encoding="utf-8").read() != text:
            tmp = OUT_FILE + ".tmp%d" % os.getpid()
            with open(tmp, "w", encoding="utf-8") as f:
                f.write(text)
            os.replace(tmp, OUT_FILE)
            changed = True
    LAST.clear()
    LAST.update(table=tab, notes=notes, changed=changed, introspected=names, how=how, repo=tr.repo, import_errors=errors)
    return tab, notes, changed


if __name__ == "__main__":
    tab, notes, changed = translate(write="--write" in sys.argv)
    for e in tab:
        print(("pub " if e["public"] else "    ") + e["key"], f"({e['file']}:{e['line']})")
        for x in e["effs"]:
            print("      ", lean_eff(x), "   --", x[-1])
    for n in notes:
        print("note:", n)
    print("introspected:", LAST["introspected"], "via", LAST["how"])
    print("changed:", changed)
