"""C17 translator: Python source of xgi  ->  lean/XgiModel/Generated/SeedTable.lean  (regenerated on every run).

For every function of the package that has a parameter named `seed` the translator emits the ordered list
of RNG effects of its body *for a call with a concrete seed* (branch `seed is not None`):

    seed src cond     random.seed(seed) -> pyGlobal, np.random.seed(seed) -> npGlobal; cond = it stands under
                      `if seed is not None:`; creation of a generator object from the seed -> `seed local`
    draw src          one call site that consumes randomness from src
    forwardSeed f     call of another function of the table with the seed passed on
    callUnseeded f    call of another function of the table without a seed (it runs with seed=None)

Loops and branches are flattened: one effect per call *site*, in source order.  Calls of package functions
that have no `seed` parameter (private helpers, `geometric`, methods resolved by name) are inlined.
A seeding call counts only when it is unconditional or directly under `if seed is not None:`; a seeding
call anywhere else (under `if seed:`, in a loop, in an except clause) is ignored - later draws then fail the
discipline.  Anything random-looking that the tables below do not classify is emitted as `draw unknown`,
never dropped.

TRUSTED: this file.  What it trusts in turn is the classification of library calls below (kept explicit).
Its output is cross-checked dynamically by harness/props/c17.py (wrapped RNG entry points, RNG state diffs).
"""
import ast
import os
import sys

VERIF = os.path.dirname(os.path.dirname(os.path.abspath(__file__)))
OUT_FILE = os.path.join(VERIF, "lean", "XgiModel", "Generated", "SeedTable.lean")
PKG = "xgi"

# ----------------------------------------------------------------------------------------------------------
# Classification tables (the trusted part).  Keys are fully resolved dotted names.

# stdlib `random`: module-level functions that consume the global Mersenne Twister
PY_DRAWS = {
    "random", "uniform", "triangular", "randint", "randrange", "choice", "choices", "shuffle", "sample",
    "getrandbits", "randbytes", "betavariate", "binomialvariate", "expovariate", "gammavariate", "gauss",
    "lognormvariate", "normalvariate", "vonmisesvariate", "paretovariate", "weibullvariate",
}
PY_NEUTRAL = {"getstate"}          # reads only
# numpy.random: module-level functions that consume the global RandomState
NP_DRAWS = {
    "random", "rand", "randn", "randint", "random_integers", "random_sample", "ranf", "sample", "bytes", "choice",
    "shuffle", "permutation", "beta", "binomial", "chisquare", "dirichlet", "exponential", "f", "gamma",
    "geometric", "gumbel", "hypergeometric", "laplace", "logistic", "lognormal", "logseries", "multinomial",
    "multivariate_normal", "negative_binomial", "noncentral_chisquare", "noncentral_f", "normal", "pareto",
    "poisson", "power", "rayleigh", "standard_cauchy", "standard_exponential", "standard_gamma",
    "standard_normal", "standard_t", "triangular", "uniform", "vonmises", "wald", "weibull", "zipf",
}
NP_NEUTRAL = {"get_state", "get_bit_generator"}
# constructors of generator objects: seeded argument -> `local`, no/None argument -> `osEntropy`
GEN_CTORS = {
    "random.Random", "numpy.random.default_rng", "numpy.random.RandomState", "numpy.random.Generator",
    "numpy.random.PCG64", "numpy.random.PCG64DXSM", "numpy.random.MT19937", "numpy.random.Philox",
    "numpy.random.SFC64", "numpy.random.SeedSequence",
}
ENTROPY_CTORS = {"random.SystemRandom"}
ENTROPY_CALLS = {"os.urandom", "secrets.token_bytes", "secrets.randbelow", "secrets.choice", "secrets.randbits",
                 "uuid.uuid4", "time.time", "time.time_ns"}
# Library functions that draw.  value = (names of the parameters that carry the randomness,
#                                        source consumed when none of them is given (documented default))
# networkx: `seed=None` means the *global* generator of numpy (np_random_state) or of `random` (py_random_state).
# scipy ARPACK wrappers (scipy >= 1.15): without `v0` the start vector comes from `default_rng(rng)`; rng=None is
# fresh OS entropy.  A given `v0` makes the call deterministic (its own origin is accounted for where it is made).
LIB = {
    "networkx.spring_layout": (("seed",), "npGlobal"),
    "networkx.fruchterman_reingold_layout": (("seed",), "npGlobal"),
    "networkx.random_layout": (("seed",), "npGlobal"),
    "networkx.forceatlas2_layout": (("seed",), "npGlobal"),
    "networkx.arf_layout": (("seed",), "npGlobal"),
    "networkx.spectral_layout": ((), None),
    "networkx.kamada_kawai_layout": ((), None),
    "networkx.fast_gnp_random_graph": (("seed",), "pyGlobal"),
    "networkx.gnp_random_graph": (("seed",), "pyGlobal"),
    "networkx.erdos_renyi_graph": (("seed",), "pyGlobal"),
    "networkx.binomial_graph": (("seed",), "pyGlobal"),
    "networkx.gnm_random_graph": (("seed",), "pyGlobal"),
    "networkx.dense_gnm_random_graph": (("seed",), "pyGlobal"),
    "networkx.barabasi_albert_graph": (("seed",), "pyGlobal"),
    "networkx.watts_strogatz_graph": (("seed",), "pyGlobal"),
    "networkx.random_regular_graph": (("seed",), "pyGlobal"),
    "scipy.sparse.linalg.eigsh": (("v0", "rng"), "osEntropy"),
    "scipy.sparse.linalg.eigs": (("v0", "rng"), "osEntropy"),
    "scipy.sparse.linalg.svds": (("v0", "rng", "random_state"), "osEntropy"),
}
LIB_PREFIXES = ("networkx.", "scipy.", "sklearn.")      # other calls into these: see `lib_call`
SEEDISH_KW = ("seed", "rng", "random_state")
RNGISH_NAMES = {"rng", "prng", "random_state", "rs", "generator", "rand_gen"}   # `rng.x()` on an untracked object
PURE_BUILTINS = {"int", "abs", "float", "str", "len", "tuple", "hash", "bool"}
NETWORKX_ALIASES = {"networkx.drawing.layout.": "networkx.", "networkx.generators.random_graphs.": "networkx.",
                    "networkx.drawing.": "networkx.", "scipy.sparse.linalg._eigen.arpack.": "scipy.sparse.linalg.",
                    "scipy.sparse.linalg.eigen.": "scipy.sparse.linalg."}


# ----------------------------------------------------------------------------------------------------------

class Fn:
    def __init__(self, mod, node, cls=None):
        self.mod, self.node, self.cls = mod, node, cls
        self.name = node.name
        a = node.args
        self.params = [x.arg for x in a.posonlyargs + a.args]
        self.kwonly = [x.arg for x in a.kwonlyargs]
        self.has_seed = "seed" in self.params or "seed" in self.kwonly
        self.qual = f"{mod.name}.{cls + '.' if cls else ''}{node.name}"
        self.key = None       # name in the table
        self.none_branch = False   # effects under `if seed is None:` (not modelled; callers get `draw unknown`)

    @property
    def public(self):
        parts = self.mod.name.split(".") + ([self.cls] if self.cls else []) + [self.name]
        return not any(p.startswith("_") for p in parts)


class Mod:
    def __init__(self, name, path, rel, is_pkg):
        self.name, self.path, self.rel, self.is_pkg = name, path, rel, is_pkg
        self.src = open(path, encoding="utf-8").read()
        self.tree = ast.parse(self.src, filename=path)
        self.alias = {}
        self.funcs, self.classes = {}, {}

    def package(self):
        return self.name if self.is_pkg else self.name.rsplit(".", 1)[0]


def _resolve_relative(mod, level, target):
    base = mod.package().split(".")
    if level > 1:
        base = base[: len(base) - (level - 1)]
    return ".".join(base + ([target] if target else []))


def _collect_imports(mod, body):
    for n in ast.walk(ast.Module(body=body, type_ignores=[])):
        if isinstance(n, ast.Import):
            for a in n.names:
                if a.asname:
                    mod.alias[a.asname] = a.name
                else:
                    mod.alias[a.name.split(".")[0]] = a.name.split(".")[0]
        elif isinstance(n, ast.ImportFrom):
            base = _resolve_relative(mod, n.level, n.module) if n.level else (n.module or "")
            for a in n.names:
                if a.name != "*":
                    mod.alias[a.asname or a.name] = f"{base}.{a.name}" if base else a.name


class Translator:
    def __init__(self, repo=None):
        self.repo = repo or os.environ.get("XGI_REPO", "/repo")
        self.root = os.path.join(self.repo, PKG)
        self.mods = {}
        self.by_name = {}      # bare function name -> [Fn]
        self.methods = {}      # method name -> [Fn]
        self.classes = {}      # class name -> [(mod, ClassDef)]
        self.notes = []
        self.memo = {}
        self._load()

    # ---- loading
    def _load(self):
        if not os.path.isdir(self.root):
            raise FileNotFoundError(self.root)
        for dp, dn, fn in sorted(os.walk(self.root)):
            dn[:] = sorted(d for d in dn if d not in ("__pycache__",))
            for f in sorted(fn):
                if not f.endswith(".py"):
                    continue
                path = os.path.join(dp, f)
                rel = os.path.relpath(path, self.repo)
                parts = rel[:-3].split(os.sep)
                is_pkg = parts[-1] == "__init__"
                if is_pkg:
                    parts = parts[:-1]
                m = Mod(".".join(parts), path, rel, is_pkg)
                self.mods[m.name] = m
                _collect_imports(m, m.tree.body)
                for n in m.tree.body:
                    if isinstance(n, (ast.FunctionDef, ast.AsyncFunctionDef)):
                        fnn = Fn(m, n)
                        m.funcs[n.name] = fnn
                        self.by_name.setdefault(n.name, []).append(fnn)
                    elif isinstance(n, ast.ClassDef):
                        m.classes[n.name] = n
                        self.classes.setdefault(n.name, []).append((m, n))
                        for c in n.body:
                            if isinstance(c, (ast.FunctionDef, ast.AsyncFunctionDef)):
                                self.methods.setdefault(c.name, []).append(Fn(m, c, cls=n.name))
        seeded = [f for fs in self.by_name.values() for f in fs if f.has_seed]
        seeded += [f for fs in self.methods.values() for f in fs if f.has_seed]
        names = {}
        for f in seeded:
            names.setdefault(f.name if not f.cls else f"{f.cls}.{f.name}", []).append(f)
        for k, fs in names.items():
            for f in fs:
                f.key = k if len(fs) == 1 else f.qual
        self.seeded = sorted(seeded, key=lambda f: (f.mod.rel, f.node.lineno))

    # ---- name resolution
    def dotted(self, mod, e):
        """resolve a Name/Attribute chain through the module's imports to a dotted path (or None)"""
        parts = []
        while isinstance(e, ast.Attribute):
            parts.append(e.attr)
            e = e.value
        if not isinstance(e, ast.Name):
            return None
        head = mod.alias.get(e.id)
        if head is None:
            return None
        d = ".".join([head] + parts[::-1])
        for k, v in NETWORKX_ALIASES.items():
            if d.startswith(k):
                d = v + d[len(k):]
        return d

    def pkg_funcs(self, mod, call):
        """package functions a call may refer to (by bare name; same module first, then the imported module)"""
        f = call.func
        if isinstance(f, ast.Name):
            if f.id in mod.funcs:
                return [mod.funcs[f.id]]
            d = mod.alias.get(f.id)
            if d is None or not (d == PKG or d.startswith(PKG + ".")):
                return []
            name = d.rsplit(".", 1)[1]
            prefix = d.rsplit(".", 1)[0]
        elif isinstance(f, ast.Attribute):
            d = self.dotted(mod, f)
            if d is None or not d.startswith(PKG + "."):
                return []
            name, prefix = f.attr, d.rsplit(".", 1)[0]
        else:
            return []
        cands = self.by_name.get(name, [])
        best = [c for c in cands if c.mod.name == prefix or c.mod.name.startswith(prefix + ".")]
        return best or cands

    # ---- effects
    def effects(self, fn, derived_params, ctx, stack):
        key = (fn.qual, frozenset(derived_params), ctx)
        if key in self.memo:
            return self.memo[key]
        if fn.qual in stack:
            return []          # recursion: the effects of the cycle are already listed once
        w = _Walker(self, fn, set(derived_params), stack + (fn.qual,))
        w.run(ctx)
        self.memo[key] = w.effs
        return w.effs

    def table(self):
        out = []
        for f in self.seeded:
            effs = self.effects(f, {"seed"}, "top", ())
            out.append(dict(key=f.key, qual=f.qual, file=f.mod.rel, line=f.node.lineno, public=f.public and not f.cls,
                            effs=effs, none_branch=f.none_branch))
        # calls of functions whose `seed is None` branch has effects of its own are not modelled: be conservative
        nb = {e["key"] for e in out if e["none_branch"]}
        for e in out:
            new = []
            for x in e["effs"]:
                new.append(x)
                if x[0] == "callUnseeded" and x[1] in nb:
                    new.append(("draw", "unknown", f"{x[1]} has effects under `seed is None` (not modelled)"))
            e["effs"] = new
        return out


def _is_seed_test(test, derived):
    """'notnone' for `seed is not None`, 'none' for `seed is None`, else None"""
    if isinstance(test, ast.Compare) and len(test.ops) == 1 and isinstance(test.left, ast.Name) \
            and test.left.id in derived and isinstance(test.comparators[0], ast.Constant) \
            and test.comparators[0].value is None:
        if isinstance(test.ops[0], ast.IsNot):
            return "notnone"
        if isinstance(test.ops[0], ast.Is):
            return "none"
    return None


def _mentions(e, names):
    return any(isinstance(n, ast.Name) and n.id in names for n in ast.walk(e))


def _is_none(e):
    return isinstance(e, ast.Constant) and e.value is None


class _Walker:
    """ordered walk of one function body.  ctx: 'top' (unconditional), 'seedcond' (directly under
    `if seed is not None:`), 'other' (any other branch / loop / handler)"""

    def __init__(self, tr, fn, derived, stack):
        self.tr, self.fn, self.mod = tr, fn, fn.mod
        self.derived = set(derived)    # names whose value is a function of the seed
        self.seedp = set(derived)      # the seed parameter(s) themselves, for the `is not None` test
        self.gens = {}                 # variable -> source of the generator object it holds
        self.effs = []
        self.stack = stack
        self.sink = self.effs

    def where(self, n):
        return f"{self.mod.rel}:{getattr(n, 'lineno', 0)}"

    def emit(self, kind, arg, node, extra=None):
        try:
            txt = ast.unparse(node)
        except Exception:  # noqa
            txt = "?"
        txt = " ".join(txt.split())
        self.sink.append((kind, arg, f"{self.where(node)}: {txt[:90]}") if extra is None else
                         (kind, arg, extra, f"{self.where(node)}: {txt[:90]}"))

    def run(self, ctx):
        body = self.fn.node.body
        self.stmts(body, ctx)

    # ---- statements
    def stmts(self, body, ctx):
        for s in body:
            self.stmt(s, ctx)

    def stmt(self, s, ctx):
        other = "other"
        if isinstance(s, (ast.FunctionDef, ast.AsyncFunctionDef, ast.ClassDef)):
            for d in getattr(s, "decorator_list", []):
                self.expr(d, ctx)
            self.stmts(s.body, other)
        elif isinstance(s, ast.If):
            k = _is_seed_test(s.test, self.seedp)
            inner = "seedcond" if ctx in ("top", "seedcond") else other
            if k == "notnone":
                self.stmts(s.body, inner)
                self.none_branch(s.orelse)
            elif k == "none":
                self.none_branch(s.body)
                self.stmts(s.orelse, inner)
            else:
                self.expr(s.test, ctx)
                self.stmts(s.body, other)
                self.stmts(s.orelse, other)
        elif isinstance(s, (ast.For, ast.AsyncFor)):
            self.expr(s.iter, ctx)
            self.stmts(s.body, other)
            self.stmts(s.orelse, other)
        elif isinstance(s, ast.While):
            self.expr(s.test, other)
            self.stmts(s.body, other)
            self.stmts(s.orelse, other)
        elif isinstance(s, (ast.With, ast.AsyncWith)):
            for it in s.items:
                self.expr(it.context_expr, ctx)
            self.stmts(s.body, ctx)
        elif isinstance(s, ast.Try) or s.__class__.__name__ == "TryStar":
            self.stmts(s.body, ctx)
            for h in s.handlers:
                self.stmts(h.body, other)
            self.stmts(s.orelse, other)
            self.stmts(s.finalbody, other)
        elif isinstance(s, ast.Match):
            self.expr(s.subject, ctx)
            for c in s.cases:
                self.stmts(c.body, other)
        elif isinstance(s, (ast.Assign, ast.AnnAssign, ast.AugAssign)):
            val = s.value
            if val is not None:
                self.expr(val, ctx)
                targets = s.targets if isinstance(s, ast.Assign) else [s.target]
                names = [n.id for t in targets for n in ast.walk(t) if isinstance(n, ast.Name)]
                src = self.ctor_kind(val) if isinstance(val, ast.Call) else None
                if src is None and isinstance(val, ast.Name) and val.id in self.gens:
                    src = self.gens[val.id]
                for nm in names:
                    if src is not None:
                        self.gens[nm] = src
                    if _mentions(val, self.derived):
                        self.derived.add(nm)
        else:
            for c in ast.iter_child_nodes(s):
                if isinstance(c, ast.expr):
                    self.expr(c, ctx)
                elif isinstance(c, ast.stmt):
                    self.stmt(c, other)

    def none_branch(self, body):
        """statements that run only when seed is None: not part of the seeded effect list"""
        if not body:
            return
        saved, self.sink = self.sink, []
        self.stmts(body, "other")
        found, self.sink = self.sink, saved
        if found:
            self.fn.none_branch = True
            self.tr.notes.append(f"{self.where(body[0])}: {len(found)} RNG effect(s) only when seed is None (not in the table)")

    # ---- expressions
    def expr(self, e, ctx):
        if isinstance(e, ast.Call):
            if isinstance(e.func, ast.Attribute):
                self.expr(e.func.value, ctx)
            elif not isinstance(e.func, ast.Name):
                self.expr(e.func, ctx)
            for a in e.args:
                self.expr(a, ctx)
            for k in e.keywords:
                self.expr(k.value, ctx)
            self.call(e, ctx)
        elif isinstance(e, ast.Lambda):
            self.expr(e.body, "other")
        elif isinstance(e, (ast.IfExp,)):
            self.expr(e.test, ctx)
            self.expr(e.body, "other")
            self.expr(e.orelse, "other")
        elif isinstance(e, (ast.ListComp, ast.SetComp, ast.GeneratorExp, ast.DictComp)):
            for g in e.generators:
                self.expr(g.iter, ctx)
                for c in g.ifs:
                    self.expr(c, "other")
            for part in ([e.key, e.value] if isinstance(e, ast.DictComp) else [e.elt]):
                self.expr(part, "other")
        else:
            for c in ast.iter_child_nodes(e):
                if isinstance(c, ast.expr):
                    self.expr(c, ctx)
                elif isinstance(c, ast.comprehension):
                    self.expr(c.iter, ctx)

    def ctor_kind(self, call):
        """source of the generator object a constructor call creates, None if `call` is not such a constructor"""
        d = self.tr.dotted(self.mod, call.func)
        if d in ENTROPY_CTORS:
            return "osEntropy"
        if d not in GEN_CTORS:
            return None
        vals = list(call.args) + [k.value for k in call.keywords]
        if not vals or all(_is_none(v) for v in vals):
            return "osEntropy"
        if any(_mentions(v, self.derived) for v in vals):
            return "local"
        if any(isinstance(v, ast.Name) and v.id in self.gens for v in vals):
            return next(self.gens[v.id] for v in vals if isinstance(v, ast.Name) and v.id in self.gens)
        if all(isinstance(v, ast.Constant) for v in vals):
            return "local"          # a literal seed: deterministic
        return "unknown"

    def seed_arg_ok(self, call):
        vals = list(call.args) + [k.value for k in call.keywords]
        if not vals or all(_is_none(v) for v in vals):
            return False
        for v in vals:
            for n in ast.walk(v):
                if isinstance(n, ast.Call) and not (isinstance(n.func, ast.Name) and n.func.id in PURE_BUILTINS):
                    return False
        return any(_mentions(v, self.derived) or isinstance(v, ast.Constant) for v in vals)

    def do_seed(self, src, call, ctx):
        if not self.seed_arg_ok(call):
            self.emit("draw", "unknown", call)      # reseeding from entropy / from something not tied to the seed
            self.tr.notes.append(f"{self.where(call)}: seeding call whose argument is not a function of the seed -> draw unknown")
        elif ctx == "other":
            self.tr.notes.append(f"{self.where(call)}: seeding of {src} ignored: not unconditional and not directly under `if seed is not None:`")
        else:
            self.emit("seed", src, call, extra=(ctx == "seedcond"))

    def call(self, c, ctx):
        f = c.func
        d = self.tr.dotted(self.mod, f)
        # 1. generator objects
        kind = self.ctor_kind(c)
        if kind is not None:
            if kind == "local":
                self.emit("seed", "local", c, extra=(ctx == "seedcond"))
            return
        if isinstance(f, ast.Attribute):
            base = f.value
            if isinstance(base, ast.Name) and base.id in self.gens:
                return self.emit("draw", self.gens[base.id], c)
            if isinstance(base, ast.Call) and self.ctor_kind(base) is not None:
                return self.emit("draw", self.ctor_kind(base), c)
        # 2. stdlib random / numpy.random module level
        if d is not None and d.startswith("random."):
            name = d[len("random."):]
            if name == "seed":
                return self.do_seed("pyGlobal", c, ctx)
            if name in PY_NEUTRAL:
                return
            return self.emit("draw", "pyGlobal" if name in PY_DRAWS else "unknown", c)
        if d is not None and d.startswith("numpy.random."):
            name = d[len("numpy.random."):]
            if name == "seed":
                return self.do_seed("npGlobal", c, ctx)
            if name in NP_NEUTRAL:
                return
            return self.emit("draw", "npGlobal" if name in NP_DRAWS else "unknown", c)
        if d in ENTROPY_CALLS:
            return self.emit("draw", "osEntropy", c)
        # 3. libraries
        if d is not None and (d in LIB or d.startswith(LIB_PREFIXES)):
            return self.lib_call(d, c)
        # 4. package functions
        cands = self.tr.pkg_funcs(self.mod, c)
        if cands:
            for callee in cands:
                self.pkg_call(callee, c, ctx)
            return
        if isinstance(f, ast.Name) and f.id not in self.mod.alias:
            for m, cls in self.tr.classes.get(f.id, []):      # constructor of a package class
                for init in [x for x in self.tr.methods.get("__init__", []) if x.cls == f.id and x.mod is m]:
                    self.pkg_call(init, c, ctx, method=True)
            return
        if isinstance(f, ast.Name) and d is not None and (d == PKG or d.startswith(PKG + ".")):
            for m, cls in self.tr.classes.get(d.rsplit(".", 1)[1], []):
                for init in [x for x in self.tr.methods.get("__init__", []) if x.cls == cls.name and x.mod is m]:
                    self.pkg_call(init, c, ctx, method=True)
            return
        # 5. methods, resolved by name over the classes of the package; rng-looking receivers
        if isinstance(f, ast.Attribute):
            chain, b = [], f.value
            while isinstance(b, ast.Attribute):
                chain.append(b.attr)
                b = b.value
            if isinstance(b, ast.Name):
                chain.append(b.id)
            if d is None and any(x in RNGISH_NAMES or x.endswith("_rng") for x in chain):
                return self.emit("draw", "unknown", c)
            if d is None or d.startswith(PKG + "."):
                for meth in self.tr.methods.get(f.attr, []):
                    self.pkg_call(meth, c, ctx, method=True)

    def lib_call(self, d, c):
        kws = {k.arg: k.value for k in c.keywords if k.arg}
        if d in LIB:
            params, default = LIB[d]
        else:
            params, default = self.introspect(d)
        given = {p: kws[p] for p in params if p in kws and not _is_none(kws[p])}
        pos = self.positional_binding(d, c, params)
        given.update({p: v for p, v in pos.items() if not _is_none(v)})
        if not params:
            return
        if "v0" in given:
            return                      # explicit start vector: deterministic given its value
        if not given:
            if default is not None:
                self.emit("draw", default, c)
            return
        v = next(iter(given.values()))
        if isinstance(v, ast.Name) and v.id in self.gens:
            return self.emit("draw", self.gens[v.id], c)
        if isinstance(v, ast.Call) and self.ctor_kind(v) is not None:
            return self.emit("draw", self.ctor_kind(v), c)
        if _mentions(v, self.derived) or isinstance(v, ast.Constant):
            return self.emit("draw", "local", c)
        self.emit("draw", "unknown", c)

    def _import(self, d):
        import importlib
        parts = d.split(".")
        for i in range(len(parts) - 1, 0, -1):
            try:
                o = importlib.import_module(".".join(parts[:i]))
            except Exception:  # noqa
                continue
            try:
                for p in parts[i:]:
                    o = getattr(o, p)
                return o
            except AttributeError:
                return None
        return None

    def introspect(self, d):
        """library function outside LIB: if its signature has a seed-like parameter it draws; which source it uses
        without one is not known here -> `unknown`"""
        import inspect
        try:
            sig = inspect.signature(self._import(d))
        except Exception:  # noqa
            return (SEEDISH_KW, None)          # not importable: only judge by the keywords given
        ps = tuple(p for p in sig.parameters if p in SEEDISH_KW)
        return (ps, "unknown") if ps else ((), None)

    def positional_binding(self, d, c, params):
        import inspect
        if not c.args or not params:
            return {}
        try:
            names = list(inspect.signature(self._import(d)).parameters)
        except Exception:  # noqa
            return {}
        return {names[i]: a for i, a in enumerate(c.args) if i < len(names) and names[i] in params
                and not isinstance(a, ast.Starred)}

    def pkg_call(self, callee, c, ctx, method=False):
        params = callee.params[1:] if (method and callee.params[:1] in (["self"], ["cls"])) else callee.params
        bound = {}
        for i, a in enumerate(c.args):
            if isinstance(a, ast.Starred):
                break
            if i < len(params):
                bound[params[i]] = a
        for k in c.keywords:
            if k.arg:
                bound[k.arg] = k.value
        if callee.has_seed:
            v = bound.get("seed")
            if v is None or _is_none(v):
                self.emit("callUnseeded", callee.key, c)
            else:
                self.emit("forwardSeed", callee.key, c)
            return
        dp = {p for p, v in bound.items() if _mentions(v, self.derived)}
        inner_ctx = ctx
        for e in self.tr.effects(callee, dp, inner_ctx, self.stack):
            self.sink.append(e[:-1] + (f"{e[-1]}  <- {self.where(c)}",))


# ----------------------------------------------------------------------------------------------------------

def lean_eff(e):
    if e[0] == "seed":
        return f".seed .{_src(e[1])} {'true' if e[2] else 'false'}"
    if e[0] == "draw":
        return f".draw .{_src(e[1])}"
    return f'.{e[0]} "{e[1]}"'


def _src(s):
    return "«local»" if s == "local" else s


def render(tab, notes):
    L = ["/-", "  GENERATED by harness/c17_translate.py from the current Python source of xgi - do not edit.",
         "  Per function with a `seed` parameter: the ordered RNG effects of a call with a concrete seed.", "-/",
         "import XgiModel.C17.Rng", "", "namespace Xgi.C17.SeedTable", "open Xgi.C17", ""]
    L.append("def fns : Table := [")
    for i, e in enumerate(tab):
        L.append(f"  -- {e['qual']}  ({e['file']}:{e['line']})")
        if not e["effs"]:
            L.append(f'  ("{e["key"]}", []){"," if i < len(tab) - 1 else ""}')
            continue
        L.append(f'  ("{e["key"]}", [')
        for j, x in enumerate(e["effs"]):
            L.append(f"    {lean_eff(x)}{',' if j < len(e['effs']) - 1 else ' '}  -- {x[-1]}")
        L.append(f"  ]){',' if i < len(tab) - 1 else ''}")
    L.append("]")
    L.append("")
    L.append("/-- the public functions among them (what C17 is stated for; the others are reached through calls) -/")
    L.append("def «public» : List String := [" + ", ".join(f'"{e["key"]}"' for e in tab if e["public"]) + "]")
    L.append("")
    if notes:
        L.append("/- translator notes:")
        L += [f"  {n}" for n in notes]
        L.append("-/")
    L.append("end Xgi.C17.SeedTable")
    return "\n".join(L) + "\n"


def translate(repo=None, write=True):
    """returns (table, notes, changed)"""
    tr = Translator(repo)
    tab = tr.table()
    text = render(tab, sorted(set(tr.notes)))
    changed = False
    if write:
        os.makedirs(os.path.dirname(OUT_FILE), exist_ok=True)
        if not os.path.exists(OUT_FILE) or open(OUT_FILE, encoding="utf-8").read() != text:
            tmp = OUT_FILE + ".tmp%d" % os.getpid()
            with open(tmp, "w", encoding="utf-8") as f:
                f.write(text)
            os.replace(tmp, OUT_FILE)
            changed = True
    return tab, sorted(set(tr.notes)), changed


if __name__ == "__main__":
    tab, notes, changed = translate(write="--write" in sys.argv)
    for e in tab:
        print(("pub " if e["public"] else "    ") + e["key"], f"({e['file']}:{e['line']})")
        for x in e["effs"]:
            print("      ", lean_eff(x), "   --", x[-1])
    for n in notes:
        print("note:", n)
    print("changed:", changed)
