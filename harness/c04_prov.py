"""C04: every way of obtaining a network (provenance) followed by additions; predicate on the implementation:
no existing edge/simplex is altered, replaced or removed; an existing explicit ID is refused with a warning."""
import copy
import os
import pickle
import shutil
import tempfile
import warnings

import networkx as nx
import numpy as np
import pandas as pd
import scipy.sparse as sp
import xgi

from .core import enc_attrs, enc_id, idkey


def edge_table(H):
    """{repr(id): (id, members-or-(tail,head), attrs)} through the public API, plus the ordered id list"""
    tab = {}
    directed = isinstance(H, xgi.DiHypergraph)
    for e in H.edges:
        if directed:
            t, h = H.edges.tail(e), H.edges.head(e)
            mem = [sorted(map(repr, t)), sorted(map(repr, h))]
        else:
            mem = sorted(map(repr, H.edges.members(e)))
        tab[repr(e)] = (mem, enc_attrs(H.edges[e]))
    return [repr(e) for e in H.edges], tab


# ----------------------------------------------------------------------------- base specs

def base_spec(rng):
    """a small undirected spec: nodes, [(eid, members)] with interesting ids (0, decreasing, gaps, strings)"""
    k = rng.randint(2, 6)
    nodes = rng.choice([list(range(k)), list(range(1, k + 1)), list("abcdef")[:k], [0, "a", 1, "b", 2, "c"][:k]])
    m = rng.randint(1, 5)
    ids = rng.choice([list(range(m)), list(range(m))[::-1], [2 * i for i in range(m)], [5, 1, 0, 3, 2][:m],
                      ["e%d" % i for i in range(m)], [0, "x", 2, "y", 1][:m], [m - 1 - i for i in range(m)]])
    edges = [(ids[i], rng.sample(nodes, rng.randint(1, min(4, k)))) for i in range(m)]
    return nodes, edges


def tmpdir():
    return tempfile.mkdtemp(prefix="xgi-c04-")


# each provenance: f(rng, nodes, edges) -> network (any of the three classes); may raise (then it is skipped)

def _H(nodes, edges):
    H = xgi.Hypergraph()
    H.add_nodes_from(nodes)
    for e, ms in edges:
        H.add_edge(ms, idx=e)
    return H


def _DH(rng, nodes, edges):
    DH = xgi.DiHypergraph()
    DH.add_nodes_from(nodes)
    for e, ms in edges:
        cut = rng.randint(0, len(ms))
        DH.add_edge((ms[:cut], ms[cut:] or ms[:1]), idx=e)
    return DH


def _SC(nodes, edges):
    S = xgi.SimplicialComplex()
    S.add_nodes_from(nodes)
    for e, ms in edges:
        S.add_simplex(ms, idx=e)
    return S


def _Hnp(rng, nodes, edges, cls):
    """a network whose explicit edge ids are numpy integers / integer-valued floats (as from np.arange, matrix labels,
    float-typed edge columns)"""
    H = cls()
    H.add_nodes_from(nodes)
    k = len(edges)
    ids = list(np.arange(k)) if rng.random() < 0.6 else [float(i) for i in range(k)]   # 0..k-1: the next automatic id must be k
    for i, (_, ms) in zip(ids, edges):
        if cls is xgi.DiHypergraph:
            H.add_edge((ms[:1], ms[1:] or ms[:1]), idx=i)
        elif cls is xgi.SimplicialComplex:
            H.add_simplex(ms, idx=i)
        else:
            H.add_edge(ms, idx=i)
    return H


def _int_ids(edges):
    return all(isinstance(e, int) for e, _ in edges)


def _io(write, read, H, name):
    d = tmpdir()
    try:
        p = os.path.join(d, name)
        write(H, p)
        return read(p)
    finally:
        shutil.rmtree(d, ignore_errors=True)


PROVENANCES = {
    "Hypergraph(list)": lambda r, n, e: xgi.Hypergraph([ms for _, ms in e]),
    "Hypergraph(dict)": lambda r, n, e: xgi.Hypergraph({i: ms for i, ms in e}),
    "Hypergraph(ndarray)": lambda r, n, e: xgi.Hypergraph(xgi.incidence_matrix(_H(n, e), sparse=False)),
    "Hypergraph(csr)": lambda r, n, e: xgi.Hypergraph(sp.csr_array(xgi.incidence_matrix(_H(n, e), sparse=False))),
    "Hypergraph(DataFrame)": lambda r, n, e: xgi.Hypergraph(pd.DataFrame([[x, i] for i, ms in e for x in ms])),
    "Hypergraph(Hypergraph)": lambda r, n, e: xgi.Hypergraph(_H(n, e)),
    "Hypergraph(SimplicialComplex)": lambda r, n, e: xgi.Hypergraph(_SC(n, e)),
    "Hypergraph(DiHypergraph)": lambda r, n, e: xgi.Hypergraph(_DH(r, n, e)),
    "incremental": lambda r, n, e: _H(n, e),
    "add_node_to_edge": lambda r, n, e: _ante(n, e),
    "add_edges_from(f2)": lambda r, n, e: _bulk(xgi.Hypergraph(), [(ms, i) for i, ms in e]),
    "add_edges_from(f4)": lambda r, n, e: _bulk(xgi.Hypergraph(), [(ms, i, {"w": 1}) for i, ms in e]),
    "add_edges_from(f5)": lambda r, n, e: _bulk(xgi.Hypergraph(), {i: ms for i, ms in e}),
    "from_hyperedge_list": lambda r, n, e: xgi.from_hyperedge_list([ms for _, ms in e]),
    "from_hyperedge_dict": lambda r, n, e: xgi.from_hyperedge_dict({i: ms for i, ms in e}),
    "from_bipartite_edgelist": lambda r, n, e: xgi.from_bipartite_edgelist([(x, i) for i, ms in e for x in ms]),
    "from_incidence_matrix": lambda r, n, e: xgi.from_incidence_matrix(xgi.incidence_matrix(_H(n, e), sparse=r.random() < 0.5)),
    "from_bipartite_graph": lambda r, n, e: xgi.from_bipartite_graph(xgi.to_bipartite_graph(_H(n, e))),
    "from_bipartite_pandas_dataframe": lambda r, n, e: xgi.from_bipartite_pandas_dataframe(
        pd.DataFrame([[x, i] for i, ms in e for x in ms], columns=["n", "e"]), node_column="n", edge_column="e"),
    "from_hypergraph_dict": lambda r, n, e: xgi.from_hypergraph_dict(xgi.to_hypergraph_dict(_H(n, e)),
                                                                     nodetype=int if all(isinstance(x, int) for x in n) else None,
                                                                     edgetype=int if _int_ids(e) else None),
    "from_hif_dict": lambda r, n, e: xgi.from_hif_dict(xgi.to_hif_dict(_H(n, e))),
    "from_hif_dict(SC)": lambda r, n, e: xgi.from_hif_dict(xgi.to_hif_dict(_SC(n, e))),
    "from_hif_dict(DH)": lambda r, n, e: xgi.from_hif_dict(xgi.to_hif_dict(_DH(r, n, e))),
    "read_edgelist": lambda r, n, e: _io(xgi.write_edgelist, lambda p: xgi.read_edgelist(p, nodetype=int if all(isinstance(x, int) for x in n) else None), _H(n, e), "el.txt"),
    "read_bipartite_edgelist": lambda r, n, e: _io(xgi.write_bipartite_edgelist, lambda p: xgi.read_bipartite_edgelist(
        p, nodetype=int if all(isinstance(x, int) for x in n) else None, edgetype=int if _int_ids(e) else None), _H(n, e), "bel.txt"),
    "read_incidence_matrix": lambda r, n, e: _io(xgi.write_incidence_matrix, xgi.read_incidence_matrix, _H(n, e), "im.txt"),
    "read_json": lambda r, n, e: _io(xgi.write_json, lambda p: xgi.read_json(p, nodetype=int if all(isinstance(x, int) for x in n) else None,
                                                                          edgetype=int if _int_ids(e) else None), _H(n, e), "h.json"),
    "read_hif": lambda r, n, e: _io(xgi.write_hif, xgi.read_hif, _H(n, e), "h.hif.json"),
    "read_hif(SC)": lambda r, n, e: _io(xgi.write_hif, xgi.read_hif, _SC(n, e), "s.hif.json"),
    "read_hif(DH)": lambda r, n, e: _io(xgi.write_hif, xgi.read_hif, _DH(r, n, e), "d.hif.json"),
    "copy": lambda r, n, e: _H(n, e).copy(),
    "copy(SC)": lambda r, n, e: _SC(n, e).copy(),
    "copy(DH)": lambda r, n, e: _DH(r, n, e).copy(),
    "pickle": lambda r, n, e: pickle.loads(pickle.dumps(_H(n, e))),
    "pickle(numpy ids)": lambda r, n, e: pickle.loads(pickle.dumps(_Hnp(r, n, e, xgi.Hypergraph))),
    "deepcopy(numpy ids)": lambda r, n, e: copy.deepcopy(_Hnp(r, n, e, xgi.Hypergraph)),
    "copy(numpy ids)": lambda r, n, e: _Hnp(r, n, e, xgi.Hypergraph).copy(),
    "pickle(numpy ids, SC)": lambda r, n, e: pickle.loads(pickle.dumps(_Hnp(r, n, e, xgi.SimplicialComplex))),
    "pickle(numpy ids, DH)": lambda r, n, e: pickle.loads(pickle.dumps(_Hnp(r, n, e, xgi.DiHypergraph))),
    "deepcopy": lambda r, n, e: copy.deepcopy(_H(n, e)),
    "deepcopy(SC)": lambda r, n, e: copy.deepcopy(_SC(n, e)),
    "deepcopy(DH)": lambda r, n, e: copy.deepcopy(_DH(r, n, e)),
    "pickle(SC)": lambda r, n, e: pickle.loads(pickle.dumps(_SC(n, e))),
    "pickle(DH)": lambda r, n, e: pickle.loads(pickle.dumps(_DH(r, n, e))),
    "convert_labels_to_integers": lambda r, n, e: xgi.convert_labels_to_integers(_H(n, e)),
    "convert_labels_to_integers(in_place)": lambda r, n, e: _inplace(_H(n, e), lambda H: xgi.convert_labels_to_integers(H, in_place=True)),
    "convert_labels_to_integers(SC)": lambda r, n, e: xgi.convert_labels_to_integers(_SC(n, e)),
    "convert_labels_to_integers(DH)": lambda r, n, e: xgi.convert_labels_to_integers(_DH(r, n, e)),
    "cleanup(not in_place)": lambda r, n, e: _H(n, e).cleanup(in_place=False, connected=False),
    # relabelling in place / through cleanup, all three classes, from networks whose IDs are strings, decreasing ints, gaps
    "relabel in place (H)": lambda r, n, e: _relabelled(_H(n, e), r),
    "relabel in place (SC)": lambda r, n, e: _relabelled(_SC(n, e), r),
    "relabel in place (DH)": lambda r, n, e: _relabelled(_DH(r, n, e), r),
    "relabel in place (SC, string ids)": lambda r, n, e: _relabelled(_SC(n, [("s%d" % i, ms) for i, (_, ms) in enumerate(e)]), r),
    "relabel in place (H, string ids)": lambda r, n, e: _relabelled(_H(n, [("s%d" % i, ms) for i, (_, ms) in enumerate(e)]), r),
    "merge_duplicate_edges(new)": lambda r, n, e: _inplace(_H(n, e + [(99, e[0][1])]), lambda H: H.merge_duplicate_edges(rename="new")),
    "merge_duplicate_edges(tuple)": lambda r, n, e: _inplace(_H(n, e + [(99, e[0][1])]), lambda H: H.merge_duplicate_edges(rename="tuple")),
    "dual": lambda r, n, e: _H(n, e).dual(),
    "lshift": lambda r, n, e: _H(n, e) << xgi.Hypergraph([[0, 1], [1, 2]]),
    "subhypergraph.copy": lambda r, n, e: xgi.subhypergraph(_H(n, e), nodes=n[:-1] or n).copy(),
    "after_removals": lambda r, n, e: _inplace(_H(n, e), lambda H: H.remove_edges_from([e[-1][0]])),
    "SimplicialComplex(list)": lambda r, n, e: xgi.SimplicialComplex([ms for _, ms in e]),
    "SimplicialComplex(dict)": lambda r, n, e: xgi.SimplicialComplex({i: ms for i, ms in e}),
    "SimplicialComplex(SC)": lambda r, n, e: xgi.SimplicialComplex(_SC(n, e)),
    "SimplicialComplex(Hypergraph)": lambda r, n, e: xgi.SimplicialComplex(_H(n, e)),
    "SC incremental": lambda r, n, e: _SC(n, e),
    "DiHypergraph(list)": lambda r, n, e: xgi.DiHypergraph([(ms[:1], ms[1:] or ms[:1]) for _, ms in e]),
    "DiHypergraph(dict)": lambda r, n, e: xgi.DiHypergraph({i: (ms[:1], ms[1:] or ms[:1]) for i, ms in e}),
    "DiHypergraph(DH)": lambda r, n, e: xgi.DiHypergraph(_DH(r, n, e)),
    "DH incremental": lambda r, n, e: _DH(r, n, e),
    "DH add_node_to_edge": lambda r, n, e: _dante(n, e),
    "DH add_node_to_edge (numpy ids)": lambda r, n, e: _ante_np(r, n, e, True),
    "add_node_to_edge (numpy ids)": lambda r, n, e: _ante_np(r, n, e, False),
    "gen:random_hypergraph": lambda r, n, e: xgi.random_hypergraph(6, [0.3, 0.1], seed=r.randint(0, 99)),
    "gen:fast_random_hypergraph": lambda r, n, e: xgi.fast_random_hypergraph(6, [0.3, 0.1], seed=r.randint(0, 99)),
    "gen:complete_hypergraph": lambda r, n, e: xgi.complete_hypergraph(4, max_order=2),
    "gen:uniform_erdos_renyi": lambda r, n, e: xgi.uniform_erdos_renyi_hypergraph(6, 3, 0.3, seed=r.randint(0, 99)),
    "gen:ring_lattice": lambda r, n, e: xgi.ring_lattice(6, 2, 2, 0),
    "gen:star_clique": lambda r, n, e: xgi.star_clique(3, 3, 2),
    "gen:sunflower": lambda r, n, e: xgi.sunflower(3, 1, 3),
    "gen:random_simplicial_complex": lambda r, n, e: xgi.random_simplicial_complex(5, [0.5, 0.2], seed=r.randint(0, 99)),
    "gen:flag_complex": lambda r, n, e: xgi.flag_complex(nx.erdos_renyi_graph(5, 0.6, seed=r.randint(0, 99)), max_order=2),
    "gen:random_flag_complex": lambda r, n, e: xgi.random_flag_complex(5, 0.6, max_order=2, seed=r.randint(0, 99)),
    "gen:shuffle_hyperedges": lambda r, n, e: xgi.shuffle_hyperedges(xgi.Hypergraph([[0, 1, 2], [2, 3], [1, 4, 5]]), order=1, p=0.5),
    "gen:complement": lambda r, n, e: xgi.complement(xgi.Hypergraph([[0, 1], [1, 2, 3]])),
}


def _ante(n, e):
    H = xgi.Hypergraph()
    for i, ms in e:
        for x in ms:
            H.add_node_to_edge(i, x)
    return H


def _dante(n, e):
    DH = xgi.DiHypergraph()
    for i, ms in e:
        for j, x in enumerate(ms):
            DH.add_node_to_edge(i, x, "in" if j % 2 else "out")
    return DH


def _ante_np(r, n, e, directed):
    """edges created by add_node_to_edge under numpy-integer / integer-valued float IDs 0..k-1"""
    H = xgi.DiHypergraph() if directed else xgi.Hypergraph()
    ids = list(np.arange(len(e))) if r.random() < 0.6 else [float(i) for i in range(len(e))]
    for i, (_, ms) in zip(ids, e):
        for j, x in enumerate(ms):
            if directed:
                H.add_node_to_edge(i, x, "in" if j % 2 else "out")
            else:
                H.add_node_to_edge(i, x)
    return H


def _relabelled(H, r):
    """H relabelled in place, either directly or through cleanup (which relabels by default)"""
    if r.random() < 0.5:
        xgi.convert_labels_to_integers(H, in_place=True)
    elif isinstance(H, xgi.DiHypergraph):
        H.cleanup(isolates=True)
    else:
        H.cleanup(isolates=True, singletons=True, multiedges=True, connected=False)
    return H


def _bulk(H, eb):
    H.add_edges_from(eb)
    return H


def _inplace(H, f):
    f(H)
    return H


# ----------------------------------------------------------------------------- additions

def gen_addition(rng, H):
    """one adding call appropriate for the class of H: returns (description dict, thunk)"""
    ids = list(H.edges)
    pool = list(H.nodes) or [0, 1, 2]
    fresh_nodes = [x for x in [0, 1, 2, 3, "a", "zz", 17] if True]
    def members(lo=1, hi=3):
        return [rng.choice(pool + fresh_nodes) for _ in range(rng.randint(lo, hi))]
    # explicit id choices: an existing one, 0, small ints around the current ids, strings
    cand = ids[:3] + [0, 1, 2, len(ids), len(ids) + 1, "new", -1, float(len(ids) + 1), 2.0, np.int64(len(ids) + 2), "7", 10**309, 2**53 + 1]
    kind = rng.random()
    if isinstance(H, xgi.DiHypergraph):
        mk = lambda: (members(1, 2), members(1, 2))
        if kind < 0.4:
            m = mk(); return {"call": "add_edge", "members": m, "idx": None}, lambda: H.add_edge(m)
        if kind < 0.7:
            m, i = mk(), rng.choice(cand); return {"call": "add_edge", "members": m, "idx": i}, lambda: H.add_edge(m, idx=i)
        if kind < 0.85:
            eb = [mk() for _ in range(rng.randint(1, 3))]; return {"call": "add_edges_from", "fmt": 1, "ebunch": eb}, lambda: H.add_edges_from(eb)
        if kind < 0.93:
            eb = [(mk(), rng.choice(cand)) for _ in range(rng.randint(1, 3))]
            return {"call": "add_edges_from", "fmt": 2, "ebunch": eb}, lambda: H.add_edges_from(eb)
        fresh = [c for c in cand if not any(hash(c) == hash(i) and bool(c == i) for i in ids)] or ["fresh"]
        i, x, d = rng.choice(fresh), rng.choice(pool), rng.choice(["in", "out"])
        return {"call": "add_node_to_edge", "edge": i, "node": x, "direction": d}, lambda: H.add_node_to_edge(i, x, d)
    if isinstance(H, xgi.SimplicialComplex):
        if kind < 0.4:
            m = members(1, 4); return {"call": "add_simplex", "members": m, "idx": None}, lambda: H.add_simplex(m)
        if kind < 0.7:
            m, i = members(1, 4), rng.choice(cand); return {"call": "add_simplex", "members": m, "idx": i}, lambda: H.add_simplex(m, idx=i)
        if kind < 0.85:
            eb = [members(1, 4) for _ in range(rng.randint(1, 3))]; return {"call": "add_simplices_from", "fmt": 1, "ebunch": eb}, lambda: H.add_simplices_from(eb)
        eb = [(members(1, 4), rng.choice(cand)) for _ in range(rng.randint(1, 3))]
        return {"call": "add_simplices_from", "fmt": 2, "ebunch": eb}, lambda: H.add_simplices_from(eb)
    if kind < 0.35:
        m = members(); return {"call": "add_edge", "members": m, "idx": None}, lambda: H.add_edge(m)
    if kind < 0.6:
        m, i = members(), rng.choice(cand); return {"call": "add_edge", "members": m, "idx": i}, lambda: H.add_edge(m, idx=i)
    if kind < 0.7:
        eb = [members() for _ in range(rng.randint(1, 3))]; return {"call": "add_edges_from", "fmt": 1, "ebunch": eb}, lambda: H.add_edges_from(eb)
    if kind < 0.8:
        eb = [(members(), rng.choice(cand)) for _ in range(rng.randint(1, 3))]; return {"call": "add_edges_from", "fmt": 2, "ebunch": eb}, lambda: H.add_edges_from(eb)
    if kind < 0.86:
        eb = [(members(), {"w": 2}) for _ in range(rng.randint(1, 3))]; return {"call": "add_edges_from", "fmt": 3, "ebunch": eb}, lambda: H.add_edges_from(eb)
    if kind < 0.92:
        eb = [(members(), rng.choice(cand), {"w": 2}) for _ in range(rng.randint(1, 3))]; return {"call": "add_edges_from", "fmt": 4, "ebunch": eb}, lambda: H.add_edges_from(eb)
    if kind < 0.96:
        eb = {rng.choice(cand): members() for _ in range(rng.randint(1, 3))}; return {"call": "add_edges_from", "fmt": 5, "ebunch": eb}, lambda: H.add_edges_from(eb)
    def _is_key(c):
        try:
            return c in H._edge if hasattr(H, "_edge") else any(hash(c) == hash(i) and bool(c == i) for i in ids)
        except Exception:  # noqa
            return True
    i = rng.choice([c for c in cand if not _is_key(c) and not isinstance(c, float)] or ["fresh"])
    x = rng.choice(pool)
    return {"call": "add_node_to_edge", "edge": i, "node": x}, lambda: H.add_node_to_edge(i, x)


def exec_addition(H, desc):
    """perform the addition described by `desc` (replayable form of the thunk)"""
    c = desc["call"]
    if c in ("add_edge", "add_simplex"):
        f = getattr(H, c)
        m = desc["members"]
        if isinstance(H, xgi.DiHypergraph):
            m = (m[0], m[1])
        return f(m) if desc.get("idx") is None else f(m, idx=desc["idx"])
    if c in ("add_edges_from", "add_simplices_from"):
        eb = desc["ebunch"]
        if isinstance(eb, list):
            eb = [tuple(x) if isinstance(x, (list, tuple)) and desc["fmt"] != 1 else x for x in eb]
            if isinstance(H, xgi.DiHypergraph) and desc["fmt"] == 1:
                eb = [(x[0], x[1]) for x in eb]
            if isinstance(H, xgi.DiHypergraph) and desc["fmt"] == 2:
                eb = [((x[0][0], x[0][1]), x[1]) for x in eb]
        return getattr(H, c)(eb)
    if c == "add_node_to_edge":
        if isinstance(H, xgi.DiHypergraph):
            return H.add_node_to_edge(desc["edge"], desc["node"], desc.get("direction", "in"))
        return H.add_node_to_edge(desc["edge"], desc["node"])
    raise AssertionError(c)


def check_addition(H, desc, thunk=None):
    """perform one addition; returns list of (failure_class, detail)"""
    order0, tab0 = edge_table(H)
    nodes0 = [repr(n) for n in H.nodes]
    # a simplex that is already present (by member set) is a documented silent no-op, whatever the id says
    present = desc["call"] == "add_simplex" and any(m == sorted(map(repr, set(desc["members"]))) for m, _ in tab0.values())
    with warnings.catch_warnings(record=True) as w:
        warnings.simplefilter("always")
        exc = None
        try:
            exec_addition(H, desc)
        except Exception as e:  # noqa
            exc = e
    warned = any(issubclass(x.category, UserWarning) for x in w)
    order1, tab1 = edge_table(H)
    fails = []
    for k in order0:
        if k not in tab1:
            fails.append(("existing-edge-removed", f"edge {k} disappeared after {desc['call']}"))
        elif tab1[k] != tab0[k]:
            fails.append(("existing-edge-altered", f"edge {k}: {tab0[k]} -> {tab1[k]} after {desc['call']}"))
    if order1[: len(order0)] != order0 and not fails:
        fails.append(("edge-order-changed", f"{order0} -> {order1}"))
    # a well-formed addition (the generator produces no None member, no malformed item) never fails with a
    # non-library exception: the automatic ID machinery must be usable on a network of any provenance
    if exc is not None and not isinstance(exc, (xgi.exception.XGIException, xgi.exception.IDNotFound)):
        fails.append(("addition-raised", f"{desc['call']} raised {type(exc).__name__}: {str(exc)[:160]}"))
    # an automatic single addition must really add (Hypergraph / DiHypergraph)
    if exc is None and desc.get("idx", 0) is None and desc["call"] == "add_edge" and len(order1) != len(order0) + 1:
        fails.append(("auto-add-dropped", f"add_edge with automatic id did not add an edge ({len(order0)} -> {len(order1)} edges; warned={warned})"))
    # an addition with a NEW explicit id that returns without a warning must have created exactly that edge
    if (exc is None and not warned and desc["call"] in ("add_edge", "add_simplex") and desc.get("idx") is not None
            and repr(desc["idx"]) not in tab0 and not present and not isinstance(desc["idx"], float)):
        ms = desc["members"]
        want = ([sorted(map(repr, set(ms[0]))), sorted(map(repr, set(ms[1])))] if isinstance(H, xgi.DiHypergraph)
                else sorted(map(repr, set(ms))))
        key = next((k for k in tab1 if k == repr(desc["idx"])), None)
        if desc["call"] == "add_simplex" and not desc["members"]:
            pass
        elif key is None:
            fails.append(("added-edge-missing", f"{desc['call']}(idx={desc['idx']!r}) returned but the id is not an edge"))
        elif tab1[key][0] != want:
            fails.append(("added-edge-wrong-members", f"{desc['call']}({ms}, idx={desc['idx']!r}) but edge {desc['idx']!r} has members {tab1[key][0]}"))
    # an explicit existing id: refused with a warning, network unchanged
    if desc["call"] in ("add_edge", "add_simplex") and desc.get("idx") is not None and repr(desc["idx"]) in tab0:
        if exc is None and not warned and not present:
            fails.append(("duplicate-id-no-warning", f"{desc['call']}(idx={desc['idx']!r}) on an existing id gave no warning"))
        if (order1, tab1) != (order0, tab0):
            fails.append(("duplicate-id-mutated", f"{desc['call']}(idx={desc['idx']!r}) on an existing id changed the network"))
        elif not present and [repr(n) for n in H.nodes] != nodes0:
            fails.append(("duplicate-id-mutated", f"{desc['call']}(idx={desc['idx']!r}) on an existing id changed the node set: {nodes0} -> {[repr(n) for n in H.nodes]}"))
    return fails


def run_provenance(ctx, n_cases):
    rng = ctx.rng
    names = sorted(PROVENANCES)
    for ci in range(n_cases):
        name = names[ci % len(names)] if ci < 2 * len(names) else rng.choice(names)
        nodes, edges = base_spec(rng)
        case_seed = rng.randint(0, 2**31)
        import random as _random
        try:
            with warnings.catch_warnings():
                warnings.simplefilter("ignore")
                H = PROVENANCES[name](_random.Random(case_seed), nodes, edges)
        except Exception as e:  # noqa
            ctx.stats["provenance_failed:" + name] += 1
            continue
        if H is None or not hasattr(H, "edges"):
            ctx.stats["provenance_failed:" + name] += 1
            continue
        if getattr(H, "is_frozen", False):
            H = H.copy()
        ctx.stats["prov:" + name.split(":")[0].split("(")[0]] += 1
        adds = []
        for _ in range(rng.randint(1, 6)):
            desc, thunk = gen_addition(rng, H)
            adds.append(desc)
            fails = check_addition(H, desc, thunk)
            ctx.evaluations += 1
            ctx.stats["add:" + type(H).__name__ + "." + desc["call"]] += 1
            if fails:
                cls, detail = fails[0]
                ctx.violation(f"{type(H).__name__}.{desc['call']}", cls,
                              {"provenance": name, "case_seed": case_seed, "base": {"nodes": nodes, "edges": edges}, "additions": adds}, detail=f"[{name}] {detail}")
                break
        order, tab = edge_table(H)
        if len(order) >= 2:
            ctx.nontrivial.add((name, tuple(order), repr(sorted(tab.items()))).__hash__())
        ctx.sample({"provenance": name, "base_edges": edges, "additions": adds[:3]}, cap=3)


def replay_provenance(ctx, case):
    """re-execute a provenance case on the current tree; returns list of failures"""
    import random as _random
    nodes = case["base"]["nodes"]
    edges = [(e, ms) for e, ms in case["base"]["edges"]]
    with warnings.catch_warnings():
        warnings.simplefilter("ignore")
        H = PROVENANCES[case["provenance"]](_random.Random(case.get("case_seed", 0)), nodes, edges)
    if getattr(H, "is_frozen", False):
        H = H.copy()
    for desc in case["additions"]:
        fails = check_addition(H, desc)
        if fails:
            return fails
    return []
