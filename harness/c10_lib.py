"""C10 helper: attributed networks of the three classes, the converter pairs on the real code, the property
predicate, canonical forms shared with the Lean driver `Drivers/C10.lean`.

Encoded network ("anet"):
  {"cls": "hg"|"sc"|"dhg", "nodes": [id…], "edges": [[id,[members]]…] | [[id,[tail],[head]]…],
   "nattr": [[id, attrs]…] (one per node, node order), "eattr": [[id, attrs]…] (one per edge), "gattr": attrs}
attrs = [[key, value]…] in dict order.  Member lists are sorted canonically (they stand for sets).
"""
import itertools
import warnings

import networkx as nx
import numpy as np
import xgi
from xgi.exception import IDNotFound, XGIError

from .core import Infra, dec_id, enc_attrs, enc_attrs_req, enc_id, idkey
from .fn import gen_hypergraph

CLS = {"hg": xgi.Hypergraph, "dhg": xgi.DiHypergraph, "sc": xgi.SimplicialComplex}


def cls_of(N):
    if isinstance(N, xgi.SimplicialComplex):
        return "sc"
    if isinstance(N, xgi.DiHypergraph):
        return "dhg"
    if isinstance(N, xgi.Hypergraph):
        return "hg"
    return "other:" + type(N).__name__


def sids(it):
    return sorted((enc_id(x) for x in it), key=idkey)


# ----------------------------------------------------------------------------- generators

ATTR_KEYS = ["w", "c", "name", "k"]
# keys spelled like a parameter of add_node / add_edge / add_nodes_from / add_edges_from / the constructors: a converter
# that forwards an attribute dict as `**attr` breaks on them
PARAM_KEYS = ["node", "idx", "members", "attr", "edge", "n", "weight", "name", "nodes_for_adding", "ebunch_to_add",
              "incoming_data", "self"]
ATTR_VALS = [0, 1, -2, 7, "r", "blue", "", None, "1"]
# non-scalar / non-int values (the model carries them as opaque canonical JSON text)
ODD_VALS = [0.5, -1.25, True, False, [1, 2], [], ["a", [1]], {"k": 1}, {}, {"a b": [1, {"z": None}]}, 2 ** 40]


def gen_attrs(rng, p=0.4, maxn=2):
    if rng.random() > p:
        return {}
    pool = ATTR_KEYS + PARAM_KEYS if rng.random() < 0.5 else ATTR_KEYS
    return {k: (rng.choice(ODD_VALS) if rng.random() < 0.2 else rng.choice(ATTR_VALS))
            for k in rng.sample(pool, rng.randint(1, maxn))}


def attrs_req(d):
    return enc_attrs_req(d)


def gen_anet(rng, cls, uniform=None):
    """a small attributed network of the given class (encoded)"""
    uniform = rng.random() < 0.6 if uniform is None else uniform
    if cls == "hg":
        nodes, edges = gen_hypergraph(rng, max_nodes=6, max_edges=6, max_size=4, allow_empty_edges=True, uniform_labels=uniform)
        a = {"cls": "hg", "nodes": [enc_id(n) for n in nodes], "edges": [[enc_id(e), sids(ms)] for e, ms in edges]}
    elif cls == "dhg":
        nodes, edges = gen_hypergraph(rng, max_nodes=6, max_edges=5, max_size=4, allow_empty_edges=True, uniform_labels=uniform)
        des = []
        for e, ms in edges:
            ms = list(ms)
            rng.shuffle(ms)
            k = rng.randint(0, len(ms))
            tail, head = ms[:k], ms[k:]
            if ms and rng.random() < 0.3:  # a node on both sides
                x = rng.choice(ms)
                tail, head = list(dict.fromkeys(tail + [x])), list(dict.fromkeys(head + [x]))
            des.append([enc_id(e), sids(tail), sids(head)])
        a = {"cls": "dhg", "nodes": [enc_id(n) for n in nodes], "edges": des}
    else:
        nodes, edges = gen_hypergraph(rng, max_nodes=6, max_edges=3, max_size=4, allow_empty_edges=False, uniform_labels=uniform)
        S = xgi.SimplicialComplex()
        S.add_nodes_from(nodes)
        with warnings.catch_warnings():
            warnings.simplefilter("ignore")
            for e, ms in edges:
                if rng.random() < 0.5:
                    S.add_simplex(ms, idx=e)
                else:
                    S.add_simplex(ms)
        a = {"cls": "sc", "nodes": [enc_id(n) for n in S.nodes], "edges": [[enc_id(e), sids(S.edges.members(e))] for e in S.edges]}
    a["nattr"] = [[n, attrs_req(gen_attrs(rng))] for n in a["nodes"]]
    a["eattr"] = [[e[0], attrs_req(gen_attrs(rng))] for e in a["edges"]]
    a["gattr"] = attrs_req(gen_attrs(rng, p=0.6))
    return a


def dec_val(v):
    if isinstance(v, dict) and "$set" in v:
        return set(dec_val(x) for x in v["$set"])
    if isinstance(v, dict) and "$o" in v:
        import json
        return json.loads(v["$o"])
    return v


def dec_attrs(a):
    return {k: dec_val(v) for k, v in a}


def build_net(a):
    """the real network object presenting exactly the encoded network.  Attributes are never passed as `**attr`
    (a key may be spelled like a parameter): nodes / edges are created bare and the dicts are written with
    set_node_attributes / set_edge_attributes / `N[key] = value`."""
    N = CLS[a["cls"]]()
    for k, v in dec_attrs(a["gattr"]).items():
        N[k] = v
    nat = {repr(n): dec_attrs(at) for n, at in a["nattr"]}
    eat = {repr(e): dec_attrs(at) for e, at in a["eattr"]}
    for n in a["nodes"]:
        N.add_node(dec_id(n))
    with warnings.catch_warnings():
        warnings.simplefilter("ignore")
        if a["cls"] == "hg":
            for e, ms in a["edges"]:
                N.add_edge([dec_id(x) for x in ms], idx=dec_id(e))
        elif a["cls"] == "dhg":
            for e, t, h in a["edges"]:
                N.add_edge(([dec_id(x) for x in t], [dec_id(x) for x in h]), idx=dec_id(e))
        else:
            N.add_simplices_from([([dec_id(x) for x in ms], dec_id(e)) for e, ms in a["edges"]])
        N.set_node_attributes({dec_id(n): nat[repr(n)] for n in a["nodes"] if nat.get(repr(n))})
        N.set_edge_attributes({dec_id(e[0]): eat[repr(e[0])] for e in a["edges"] if eat.get(repr(e[0]))})
    got = snapshot(N)
    want_n = [[n, enc_attrs(nat.get(repr(n), {}))] for n in a["nodes"]]
    want_e = [[e[0], enc_attrs(eat.get(repr(e[0]), {}))] for e in a["edges"]]
    if (got["nodes"] != a["nodes"] or got["edges"] != a["edges"] or got["nattr"] != want_n or got["eattr"] != want_e
            or got["gattr"] != enc_attrs(dec_attrs(a["gattr"]))):
        raise Infra(f"generator defect: built network {got} differs from encoded {a}")
    return N


def snapshot(N):
    """canonical view of a real network (public API only)"""
    c = cls_of(N)
    s = {"cls": c, "nodes": [enc_id(n) for n in N.nodes]}
    if c == "dhg":
        s["edges"] = [[enc_id(e), sids(N.edges.tail(e)), sids(N.edges.head(e))] for e in N.edges]
    else:
        s["edges"] = [[enc_id(e), sids(N.edges.members(e))] for e in N.edges]
    s["nattr"] = [[enc_id(n), enc_attrs(N.nodes[n])] for n in N.nodes]
    s["eattr"] = [[enc_id(e), enc_attrs(N.edges[e])] for e in N.edges]
    s["gattr"] = enc_attrs(N._net_attr)
    return s


def inc_of(s):
    """incidence set of a snapshot: {(node, edge)} or {(node, edge, 'in'|'out')}"""
    out = set()
    for e in s["edges"]:
        if s["cls"] == "dhg":
            out |= {(repr(n), repr(e[0]), "in") for n in e[1]} | {(repr(n), repr(e[0]), "out") for n in e[2]}
        else:
            out |= {(repr(n), repr(e[0])) for n in e[1]}
    return out


def members_of(e):
    """member set (tail ∪ head for a directed edge) of an encoded edge"""
    return sorted({repr(x): x for x in (e[1] + (e[2] if len(e) > 2 else []))}.values(), key=idkey)


# ----------------------------------------------------------------------------- canonical forms of representations

def sort_runs(rows, key):
    """sort each maximal run of rows with equal key(row) (set-iteration order inside a run is not compared)"""
    out = []
    for _, g in itertools.groupby(rows, key=lambda r: repr(key(r))):
        out += sorted(g, key=lambda r: [idkey(x) for x in r])
    return out


class ReturnedNone(Exception):
    """a converter documented to return a network returned None"""


def err_kind(ex):
    if isinstance(ex, ReturnedNone):
        return "err:none"
    if isinstance(ex, XGIError):
        return "err:lib"
    if isinstance(ex, TypeError):
        return "err:type"
    if isinstance(ex, ValueError):
        return "err:value"
    return "err:other:" + type(ex).__name__


def nodetype_for(ids):
    """the cast that restores the IDs from their str() form, or 'str' when none exists (mixed int/str IDs)"""
    if all(isinstance(x, int) for x in ids):
        return "int"
    if all(isinstance(x, str) for x in ids):
        return "none"
    return "mixed"


# ----------------------------------------------------------------------------- converter pairs on the real code

CONVERTERS = ["hyperedge_list", "hyperedge_dict", "bipartite_edgelist", "incidence_labelled", "incidence_unlabelled",
              "bipartite_graph", "dataframe", "hypergraph_dict", "hif_dict", "class"]
DIRECTED_OK = {"bipartite_edgelist", "bipartite_graph", "hif_dict", "class"}


TO_FN = {"hg": "to_hypergraph", "dhg": "to_dihypergraph", "sc": "to_simplicial_complex"}
VIAS = ["ctor", "to", "to-class", "to-instance"]


def via_build(case, rep, tgt, r):
    """representation (or network) -> network of class `tgt` by another public route than the from_* function:
      ctor         Cls(rep)                                   the class constructor
      to           xgi.to_<cls>(rep)                          the converter the constructor delegates to, called directly
      to-class     xgi.to_<cls>(rep, create_using=Cls)
      to-instance  xgi.to_<cls>(rep, create_using=<instance with a stale node and a stale network attribute>)
                   ('If hypergraph instance, then cleared before populated': the result is the instance itself)"""
    via, cls, tofn = case["via"], CLS[tgt], getattr(xgi, TO_FN[tgt])
    if via == "ctor":
        return cls(rep)
    if via == "to":
        R = tofn(rep)
    elif via == "to-class":
        R = tofn(rep, create_using=cls)
    elif via == "to-instance":
        inst = cls()
        inst.add_node("stale-node")
        inst["stale-attr"] = 1
        R = tofn(rep, create_using=inst)
        if R is not None and R is not inst:
            r["create_using"] = "the network returned is not the instance given as create_using"
        if "stale-node" in inst.nodes or "stale-attr" in inst._net_attr:
            r["create_using"] = "the instance given as create_using was not cleared before it was populated"
        return inst
    else:
        raise Infra(f"unknown route {via}")
    if R is None:
        raise ReturnedNone(f"xgi.{TO_FN[tgt]}({type(rep).__name__}{', create_using=' + cls.__name__ if via == 'to-class' else ''}) returned None")
    return R


def convert(case):
    """run one converter pair on the real code: returns {"out", "rep", "rt", ...} (canonical)"""
    a = case["net"]
    N = build_net(a)
    f = case["f"]
    with warnings.catch_warnings():
        warnings.simplefilter("ignore")
        return _convert(N, a, f, case)


def _convert(N, a, f, case):
    r = {"out": "ok"}
    using = CLS[case["using"]] if case.get("using") else None
    opt = case.get("opt") or {}
    via = case.get("via")
    tgt = case.get("using") or "hg"
    if f == "hyperedge_list":
        L = xgi.to_hyperedge_list(N)
        r["rep"] = [sids(s) for s in L]
        kw = {"max_order": opt["max_order"]} if opt.get("max_order") is not None else {}
        if via and kw:       # max_order travels through from_hyperedge_list only: create_using = an instance
            R = CLS[tgt]()
            out = xgi.from_hyperedge_list(L, create_using=R, **kw)
            if out is not R:
                r["create_using"] = "the network returned is not the instance given as create_using"
        else:
            R = via_build(case, L, tgt, r) if via else xgi.from_hyperedge_list(L, create_using=using, **kw)
    elif f == "hyperedge_dict":
        D = xgi.to_hyperedge_dict(N)
        r["rep"] = [[enc_id(e), sids(s)] for e, s in D.items()]
        if via:
            R = via_build(case, D, tgt, r)
        else:
            R = xgi.from_hyperedge_dict(D, create_using=using) if using is not xgi.SimplicialComplex else xgi.from_simplex_dict(D)
    elif f in ("dimembers_dict", "dimembers_list"):
        # the directed hyperedge dict / list the library itself hands out: DiEdgeView.dimembers
        D = N.edges.dimembers(dtype=dict) if f == "dimembers_dict" else N.edges.dimembers()
        items = D.items() if f == "dimembers_dict" else enumerate(D)
        r["rep"] = [[enc_id(e), sids(t), sids(h)] for e, (t, h) in items]
        R = via_build(case, D, "dhg", r)
    elif f == "bipartite_edgelist":
        L = xgi.to_bipartite_edgelist(N)
        rows = [[enc_id(t[0]), enc_id(t[1])] + list(t[2:]) for t in L]
        r["rep"] = sort_runs(rows, key=lambda t: [t[1]] + t[2:])
        R = xgi.from_bipartite_edgelist(L)
    elif f in ("incidence_labelled", "incidence_unlabelled"):
        I, rd, cd = xgi.to_incidence_matrix(N, sparse=case.get("sparse", True), index=True)
        import scipy.sparse
        if scipy.sparse.issparse(I) != bool(case.get("sparse", True)):
            r["matrix_type"] = f"to_incidence_matrix(sparse={case.get('sparse', True)}) returned a {type(I).__name__}"
        M = I.todense().tolist() if scipy.sparse.issparse(I) else np.asarray(I).tolist()
        rows, cols = [rd[i] for i in range(len(rd))], [cd[j] for j in range(len(cd))]
        r["rep"] = {"M": [[int(x) for x in row] for row in M], "rows": [enc_id(x) for x in rows], "cols": [enc_id(x) for x in cols]}
        if opt.get("index") is False:      # the matrix alone, as a second call would return it
            I2 = xgi.to_incidence_matrix(N, sparse=case.get("sparse", True))
            M2 = I2.todense().tolist() if case.get("sparse", True) else np.asarray(I2).tolist()
            if [[int(x) for x in row] for row in M2] != r["rep"]["M"]:
                r["index_false"] = "to_incidence_matrix(index=False) differs from the matrix returned with index=True"
            I = I2
        if opt.get("labels") == "nodes":
            R = xgi.from_incidence_matrix(I, nodelabels=np.array(rows, dtype=object) if opt.get("array") else rows)
        elif opt.get("labels") == "edges":
            R = xgi.from_incidence_matrix(I, edgelabels=np.array(cols, dtype=object) if opt.get("array") else cols)
        elif f == "incidence_labelled":
            R = xgi.from_incidence_matrix(I, nodelabels=rows, edgelabels=cols, create_using=using)
        elif via:
            R = via_build(case, I, "hg", r)
        else:
            R = xgi.from_incidence_matrix(I, create_using=using)
    elif f == "bipartite_graph":
        G, itn, ite = xgi.to_bipartite_graph(N, index=True)
        r["rep"] = graph_rep(G)
        r["rep"]["itn"] = [[enc_id(k), enc_id(v)] for k, v in itn.items()]
        r["rep"]["ite"] = [[enc_id(k), enc_id(v)] for k, v in ite.items()]
        if opt.get("index") is False:
            G2 = xgi.to_bipartite_graph(N)
            if graph_rep(G2) != graph_rep(G):
                r["index_false"] = "to_bipartite_graph(index=False) differs from the graph returned with index=True"
            G = G2
        R = xgi.from_bipartite_graph(G, dual=True) if opt.get("dual") else xgi.from_bipartite_graph(G)
        r["itn"], r["ite"] = {repr(enc_id(k)): enc_id(v) for k, v in itn.items()}, {repr(enc_id(k)): enc_id(v) for k, v in ite.items()}
    elif f == "dataframe":
        df = xgi.to_bipartite_pandas_dataframe(N)
        rows = [[enc_id(x), enc_id(y)] for x, y in df.values.tolist()]
        r["rep"] = sort_runs(rows, key=lambda t: t[0])
        cols = opt.get("columns")
        if via:
            R = via_build(case, df, tgt, r)
        elif cols == "names":
            R = xgi.from_bipartite_pandas_dataframe(df, create_using=using, node_column="Node ID", edge_column="Edge ID")
        elif cols == "reordered":      # the edge column first (+ an unrelated third column): found by name
            df2 = df[["Edge ID", "Node ID"]].copy()
            df2.insert(1, "extra", list(range(len(df2))))
            R = xgi.from_bipartite_pandas_dataframe(df2, create_using=using, node_column="Node ID", edge_column="Edge ID")
        elif cols == "renamed":
            df2 = df.rename(columns={"Node ID": "n", "Edge ID": "e"})
            R = xgi.from_bipartite_pandas_dataframe(df2, create_using=using, node_column="n", edge_column="e")
        elif cols == "positions-swapped":   # columns given by position, edge column first
            df2 = df[["Edge ID", "Node ID"]]
            R = xgi.from_bipartite_pandas_dataframe(df2, create_using=using, node_column=1, edge_column=0)
        elif cols == "dual":            # the roles exchanged on purpose: the dual incidences
            R = xgi.from_bipartite_pandas_dataframe(df, create_using=using, node_column=1, edge_column=0)
        else:
            R = xgi.from_bipartite_pandas_dataframe(df, create_using=using)
    elif f == "hypergraph_dict":
        d = xgi.to_hypergraph_dict(N)
        r["rep"] = hdict_rep(d)
        cast = {"int": int, "none": None, "mixed": None, "str": str}
        kw = {"max_order": opt["max_order"]} if "max_order" in opt else {}
        R = xgi.from_hypergraph_dict(d, nodetype=cast[case["nodetype"]], edgetype=cast[case["edgetype"]], **kw)
    elif f == "hif_dict":
        d = xgi.to_hif_dict(N)
        r["rep"] = hif_rep(d)
        cast = {"int": int, "str": str, None: None}
        if "cast" in opt:
            R = xgi.from_hif_dict(d, nodetype=cast[opt["cast"][0]], edgetype=cast[opt["cast"][1]])
        else:
            R = xgi.from_hif_dict(d)
    elif f == "class":
        r["rep"] = None
        R = via_build(case, N, case["target"], r) if via else CLS[case["target"]](N)
    else:
        raise Infra(f"unknown converter {f}")
    r["rt"] = snapshot(R)
    return r


def hdict_rep(d):
    """canonical form of a standard hypergraph dict (in memory, or as json.loads returned it from a file)"""
    return {"gattr": enc_attrs(d["hypergraph-data"]),
            "node-data": [[k, enc_attrs(v)] for k, v in d["node-data"].items()],
            "edge-data": [[k, enc_attrs(v)] for k, v in d["edge-data"].items()],
            "edge-dict": [[k, list(v)] for k, v in d["edge-dict"].items()]}


def hif_rep(d):
    """canonical form of a HIF dict (in memory, or as json.loads returned it from a file)"""
    incs = [[enc_id(x["edge"]), enc_id(x["node"])] + ([x["direction"]] if "direction" in x else []) for x in d["incidences"]]
    return {"ntype": d["network-type"], "gattr": enc_attrs(d["metadata"]),
            "nodes": sorted([[enc_id(x["node"]), enc_attrs(x["attrs"]) if "attrs" in x else "$none"] for x in d.get("nodes", [])], key=lambda p: idkey(p[0])),
            "edges": sorted([[enc_id(x["edge"]), enc_attrs(x["attrs"]) if "attrs" in x else "$none"] for x in d.get("edges", [])], key=lambda p: idkey(p[0])),
            "incidences": sort_runs(incs, key=lambda t: [t[0]] + t[2:])}


def graph_rep(G):
    return {"directed": isinstance(G, nx.DiGraph),
            "verts": [[enc_id(v), (d["bipartite"] if "bipartite" in d else None)] for v, d in G.nodes(data=True)],
            "edges": [[enc_id(u), enc_id(v)] for u, v in G.edges]}


def build_graph(g):
    """networkx graph from {"directed", "vorder": [[vertex, flag|None]…], "eorder": [[u, v]…]} inserting vertices and
    edges in exactly that order and orientation"""
    G = nx.DiGraph() if g["directed"] else nx.Graph()
    for v, flag in g["vorder"]:
        if flag is None:
            G.add_node(dec_id(v))
        else:
            G.add_node(dec_id(v), bipartite=flag)
    for u, v in g["eorder"]:
        G.add_edge(dec_id(u), dec_id(v))
    return G


def convert_graph(case):
    """from_bipartite_graph on a hand-built graph (random insertion orders / orientations)"""
    G = build_graph(case["graph"])
    with warnings.catch_warnings():
        warnings.simplefilter("ignore")
        rep = graph_rep(G)
        R = xgi.from_bipartite_graph(G)
    return {"out": "ok", "rep": rep, "rt": snapshot(R)}


# ----------------------------------------------------------------------------- the property predicate

def kept_for_sc(edges):
    """source edges a simplicial-complex target keeps by ID: non-empty member set, not equal to an earlier edge's"""
    seen, out = set(), []
    for e in edges:
        ms = frozenset(repr(x) for x in members_of(e))
        if ms and ms not in seen:
            seen.add(ms)
            out.append(e)
    return out


KWARG_CLASH = "attribute-key-named-like-a-parameter"


def flat_net(a):
    """the undirected network underlying a directed one: every edge becomes tail | head (DiEdgeView.members)"""
    return dict(a, cls="hg", edges=[[e[0], members_of(e)] for e in a["edges"]])


def classify_directed(case, r):
    """a DiHypergraph given to a converter documented for Hypergraph / SimplicialComplex only:
    'raises-<Type>' | 'undirected-shadow' (the round trip of the underlying undirected network, direction silently
    dropped) | 'garbage' (accepted, and the result is not even that)"""
    if str(r.get("out", "")).startswith("err"):
        return "raises-" + (r.get("msg", r["out"]).split(":")[0])
    c2 = dict(case, net=flat_net(case["net"]))
    c2.pop("directed_undocumented", None)
    return "undirected-shadow" if not pred(c2, r) else "garbage"


def pred(case, r):
    """C10 on the implementation's result: list of (failure_class, detail)"""
    if case.get("f") == "from_bipartite_graph":
        return pred_graph(case, r)
    a, f = case["net"], case["f"]
    opt = case.get("opt") or {}
    fails = []
    if case.get("directed_undocumented"):
        k = classify_directed(case, r)
        if k == "garbage":
            fails.append(("directed-input-garbage", f"{f} accepted a DiHypergraph without error and the round trip is not even the "
                          f"underlying undirected network (tail | head per edge): edges {r['rt']['edges']} nodes {r['rt']['nodes']}"))
        return fails
    if str(r.get("out", "")).startswith("err"):
        exp = expected_error(case)
        if exp is None:
            name = r["out"].split(":")[-1] if r["out"].startswith("err:other") else \
                {"err:lib": "XGIError", "err:type": "TypeError", "err:value": "ValueError", "err:none": "None"}[r["out"]]
            if r["out"] == "err:none":
                # one class per kind of input: a listed finding for one kind must not absorb a None for another
                kind = {"incidence_unlabelled": "matrix", "hyperedge_list": "list", "hyperedge_dict": "dict", "dimembers_list": "list",
                        "dimembers_dict": "dict", "class": "network"}.get(f, f)
                fails.append(("converter-returns-none:" + kind, f"{f} ({a['cls']} network, route {case.get('via')}): {r.get('msg')}"))
            elif r["out"] == "err:type" and "got multiple values for argument" in r.get("msg", ""):
                fails.append((KWARG_CLASH, f"{f} on a {a['cls']} network raised {r.get('msg')}: an attribute dict was forwarded as **kwargs"))
            elif "Members cannot be specified as a string" in r.get("msg", ""):
                fails.append(("raises-XGIError:members-as-string", f"{f} on a {a['cls']} network raised {r.get('msg')}: a member list whose "
                              "first label is a string was taken for a (members, ID) pair"))
            else:
                fails.append(("raises-" + name, f"{f} on a {a['cls']} network raised {r.get('msg', r['out'])}"))
        return fails
    if f == "hypergraph_dict" and opt.get("max_order"):
        # documented option: edges with more than max_order + 1 members are not read (their attribute records neither)
        keep = [i for i, e in enumerate(a["edges"]) if len(members_of(e)) <= opt["max_order"] + 1]
        a = dict(a, edges=[a["edges"][i] for i in keep], eattr=[a["eattr"][i] for i in keep])
    if r.get("index_false"):
        fails.append(("index-false-differs", r["index_false"]))
    if r.get("matrix_type"):
        fails.append(("matrix-type", r["matrix_type"]))
    if r.get("create_using"):
        fails.append(("create-using", f"{f}, route {case.get('via')}: {r['create_using']}"))
    s, t = a, r["rt"]
    src_inc = inc_of(s)
    und_inc = {(repr(n), repr(e[0])) for e in s["edges"] for n in members_of(e)}
    if f == "hyperedge_list" and case.get("using") == "sc" and (s["cls"] != "sc" or opt.get("max_order") is not None):
        # a hyperedge list read into a simplicial complex: every listed edge with all its faces (at least two nodes); with
        # max_order=k an edge of more than k+1 nodes is replaced by its faces of 2..k+1 nodes
        k = opt.get("max_order")
        want = set()
        for e in s["edges"]:
            ms = [repr(x) for x in members_of(e)]
            if ms and (k is None or len(ms) <= k + 1):
                want.add(frozenset(ms))
            top = len(ms) - 1 if k is None else min(len(ms) - 1, k + 1)
            for j in range(2, top + 1):
                want |= {frozenset(c) for c in itertools.combinations(ms, j)}
        have = [frozenset(map(repr, e[1])) for e in t["edges"]]
        if t["cls"] != "sc":
            fails.append(("network-class", f"result is {t['cls']}, asked for sc"))
        elif set(have) != want or len(set(have)) != len(have):
            fails.append(("faces", f"max_order={k}: simplices {sorted(map(sorted, have))} vs the faces of the listed edges {sorted(map(sorted, want))}"))
    elif f == "hyperedge_list":
        # unlabelled edges: the k-th edge of the result is the k-th edge of the source, IDs 0..m-1
        if [e[0] for e in t["edges"]] != list(range(len(s["edges"]))):
            fails.append(("edge-order", f"edge IDs {[e[0] for e in t['edges']]} are not 0..{len(s['edges']) - 1} in order"))
        elif [e[1] for e in t["edges"]] != [members_of(e) for e in s["edges"]]:
            fails.append(("incidence", f"members {[e[1] for e in t['edges']]} vs source {[members_of(e) for e in s['edges']]}"))
    elif f == "hyperedge_dict":
        if sorted(t["edges"], key=lambda e: idkey(e[0])) != sorted(([e[0], members_of(e)] for e in s["edges"]), key=lambda e: idkey(e[0])):
            fails.append(("incidence", f"edge dict {t['edges']} vs source {s['edges']}"))
    elif f == "dataframe" and case.get("using") == "sc":
        # a simplicial complex read back into a simplicial complex: the same simplices, and - the dataframe carries
        # the edge labels - under the same IDs
        have = sorted(sorted(map(repr, e[1])) for e in t["edges"])
        want = sorted(sorted(map(repr, members_of(e))) for e in s["edges"])
        if t["cls"] != "sc":
            fails.append(("network-class", f"result is {t['cls']}, asked for sc"))
        elif have != want:
            fails.append(("incidence", f"simplices {[e[1] for e in t['edges']]} vs source {[e[1] for e in s['edges']]}"))
        elif inc_of(t) != src_inc:
            fails.append(("edge-labels", f"the dataframe carries the edge labels {[e[0] for e in s['edges']]} but the simplicial complex "
                          f"read from it has {[e[0] for e in t['edges']]}: {t['edges']} vs source {s['edges']}"))
    elif f in ("dimembers_dict", "dimembers_list"):
        want = [list(e) for e in s["edges"]] if f == "dimembers_dict" else [[i, e[1], e[2]] for i, e in enumerate(s["edges"])]
        if t["cls"] != "dhg":
            fails.append(("network-class", f"result is {t['cls']}, asked for dhg"))
        elif t["edges"] != want:
            fails.append(("incidence", f"directed edges {t['edges']} vs source {want}"))
    elif f == "dataframe" and opt.get("columns") == "dual":
        want = {(e, n) for n, e in src_inc}
        if inc_of(t) != want:
            fails.append(("incidence", f"node_column=1, edge_column=0: incidences {sorted(inc_of(t))} vs exchanged source {sorted(want)}"))
    elif f in ("bipartite_edgelist", "dataframe") or (f == "incidence_labelled" and not opt.get("labels")):
        if inc_of(t) != src_inc:
            fails.append(("incidence", f"incidences {sorted(inc_of(t))} vs source {sorted(src_inc)}"))
    elif f in ("incidence_unlabelled", "incidence_labelled"):
        # labels carried for the side whose label list is given, positions for the other
        ln, le = opt.get("labels") == "nodes", opt.get("labels") == "edges"
        pos = {(repr(n if ln else i), repr(e[0] if le else j)) for j, e in enumerate(s["edges"]) for i, n in enumerate(s["nodes"]) if n in e[1]}
        if inc_of(t) != pos:
            fails.append(("incidence", f"incidences {sorted(inc_of(t))} vs source (labels: {opt.get('labels', 'none')}) {sorted(pos)}"))
    elif f == "bipartite_graph" and opt.get("dual"):
        # dual=True: nodes from the bipartite=1 vertices (the source's edges), edges from the bipartite=0 vertices
        itn, ite = r["itn"], r["ite"]
        try:
            got = {(repr(ite[repr(n)]), repr(itn[repr(e[0])])) for e in t["edges"] for n in e[1]}
        except KeyError as ex:
            fails.append(("dual", f"dual=True: vertex {ex} used with the wrong role (index maps {itn} / {ite})"))
        else:
            want = {(e, n) for n, e in src_inc}
            if got != want:
                fails.append(("dual", f"dual=True: incidences through the index maps {sorted(got)} vs exchanged source {sorted(want)}"))
    elif f == "bipartite_graph":
        itn, ite = r["itn"], r["ite"]
        try:
            got = set()
            for e in t["edges"]:
                if t["cls"] == "dhg":
                    got |= {(repr(itn[repr(n)]), repr(ite[repr(e[0])]), "in") for n in e[1]}
                    got |= {(repr(itn[repr(n)]), repr(ite[repr(e[0])]), "out") for n in e[2]}
                else:
                    got |= {(repr(itn[repr(n)]), repr(ite[repr(e[0])])) for n in e[1]}
        except KeyError as ex:
            fails.append(("incidence", f"result uses vertex {ex} with the wrong role (index maps {itn} / {ite})"))
        else:
            if got != src_inc:
                fails.append(("incidence", f"incidences through the index maps {sorted(got)} vs source {sorted(src_inc)}"))
    elif f in ("hypergraph_dict", "hif_dict"):
        # the documented effect of nodetype / edgetype on the IDs: the hypergraph dict stringifies every ID and reads it
        # back through the cast (no cast: it stays a string); HIF keeps the JSON value unless a cast is given
        ident = lambda x: x
        if f == "hif_dict":
            cn, ce = [{"int": int, "str": str, None: ident}[k] for k in opt.get("cast", [None, None])]
        else:
            cn = int if case["nodetype"] == "int" else str
            ce = int if case["edgetype"] == "int" else str
        want_inc = {(repr(cn(n)), repr(ce(e[0]))) + ((d,) if s["cls"] == "dhg" else ()) for e in s["edges"]
                    for d, part in (("in", e[1]), ("out", e[2] if len(e) > 2 else [])) for n in part}
        if f == "hypergraph_dict" and s["cls"] == "dhg":
            want_inc = {(n, e) for n, e, _ in want_inc}
        if inc_of(t) != want_inc:
            fails.append(("incidence", f"incidences {sorted(inc_of(t))} vs source {sorted(want_inc)}"))
        if sorted(map(repr, t["nodes"])) != sorted(repr(cn(n)) for n in s["nodes"]):
            fails.append(("isolated-nodes", f"nodes {t['nodes']} vs source {s['nodes']}"))
        if sorted(repr(e[0]) for e in t["edges"]) != sorted(repr(ce(e[0])) for e in s["edges"]):
            fails.append(("empty-edges", f"edge IDs {[e[0] for e in t['edges']]} vs source {[e[0] for e in s['edges']]}"))
        canon_attr = lambda pairs, c: sorted(([repr(c(k)), sorted(v)] for k, v in pairs))
        src_nattr = [[n, enc_attrs(dec_attrs(at))] for n, at in s["nattr"]]
        src_eattr = [[e, enc_attrs(dec_attrs(at))] for e, at in s["eattr"]]
        if canon_attr(t["nattr"], lambda x: x) != canon_attr(src_nattr, cn):
            fails.append(("node-attributes", f"{t['nattr']} vs source {src_nattr}"))
        if canon_attr(t["eattr"], lambda x: x) != canon_attr(src_eattr, ce):
            fails.append(("edge-attributes", f"{t['eattr']} vs source {src_eattr}"))
        if t["gattr"] != enc_attrs(dec_attrs(s["gattr"])):
            fails.append(("network-attributes", f"{t['gattr']} vs source {s['gattr']}"))
        if f == "hif_dict" and t["cls"] != s["cls"]:
            fails.append(("network-class", f"result is {t['cls']}, source is {s['cls']}"))
    elif f == "class":
        tgt = case["target"]
        if t["cls"] != tgt:
            fails.append(("network-class", f"result is {t['cls']}, asked for {tgt}"))
        if sorted(map(repr, t["nodes"])) != sorted(map(repr, s["nodes"])):
            fails.append(("node-set", f"nodes {t['nodes']} vs source {s['nodes']}"))
        src_nattr = sorted([repr(n), enc_attrs(dec_attrs(at))] for n, at in s["nattr"])
        if sorted([repr(n), at] for n, at in t["nattr"]) != src_nattr:
            fails.append(("node-attributes", f"{t['nattr']} vs source {s['nattr']}"))
        if t["gattr"] != enc_attrs(dec_attrs(s["gattr"])):
            fails.append(("network-attributes", f"{t['gattr']} vs source {s['gattr']}"))
        teat = {repr(e): at for e, at in t["eattr"]}
        seat = {repr(e): enc_attrs(dec_attrs(at)) for e, at in s["eattr"]}
        if tgt == "sc":
            tm = {repr(e[0]): e[1] for e in t["edges"]}
            for e in kept_for_sc(s["edges"]):
                if tm.get(repr(e[0])) != members_of(e):
                    fails.append(("member-set", f"source edge {e} became {tm.get(repr(e[0]))}"))
                elif teat.get(repr(e[0])) != seat[repr(e[0])]:
                    fails.append(("edge-attributes", f"edge {e[0]!r}: {teat.get(repr(e[0]))} vs source {seat[repr(e[0])]}"))
            have = {frozenset(map(repr, e[1])) for e in t["edges"]}
            want = set()
            for e in s["edges"]:
                ms = [repr(x) for x in members_of(e)]
                if ms:
                    want.add(frozenset(ms))
                for k in range(2, len(ms)):
                    want |= {frozenset(c) for c in itertools.combinations(ms, k)}
            if have != want:
                fails.append(("faces", f"simplices {sorted(map(sorted, have))} vs closure of the source edges {sorted(map(sorted, want))}"))
            if len(have) != len(t["edges"]):
                fails.append(("faces", "duplicate simplices in the result"))
        elif tgt == "dhg":
            if t["edges"] != s["edges"]:
                fails.append(("member-set", f"edges {t['edges']} vs source {s['edges']}"))
            elif teat != seat:
                fails.append(("edge-attributes", f"{t['eattr']} vs source {s['eattr']}"))
        else:
            if t["edges"] != [[e[0], members_of(e)] for e in s["edges"]]:
                fails.append(("member-set", f"edges {t['edges']} vs source {s['edges']}"))
            elif teat != seat:
                fails.append(("edge-attributes", f"{t['eattr']} vs source {s['eattr']}"))
    return fails


def expected_error(case):
    """errors that are the documented answer, not a failed round trip"""
    a, f = case["net"], case["f"]
    if f == "hypergraph_dict":
        ns, es = [dec_id(n) for n in a["nodes"]], [dec_id(e[0]) for e in a["edges"]]
        if len({str(x) for x in ns}) != len(ns) or len({str(x) for x in es}) != len(es):
            return "err:lib"  # colliding string casts are refused
        if any(len({type(x) for x in members_of(e)}) > 1 for e in a["edges"]):
            return "err:type"  # sorted() of a mixed int/str member set
    if f == "class" and case["target"] == "dhg" and a["cls"] != "dhg":
        return "err:lib"  # no conversion undirected -> directed is offered
    return None


def pred_graph(case, r):
    """from_bipartite_graph on a hand-built graph: the result's incidences are the graph's unordered pairs read
    through the bipartite flags, whatever the insertion order / orientation"""
    g = case["graph"]
    fails = []
    want = case.get("expect")
    if str(r.get("out", "")).startswith("err"):
        if want != r["out"]:
            fails.append(("graph-raises", f"from_bipartite_graph raised {r['out']} ({r.get('msg', '')}); expected {want}"))
        return fails
    if want and want.startswith("err"):
        fails.append(("graph-accepted", f"invalid bipartite graph accepted (expected {want})"))
        return fails
    flag = {repr(v): fl for v, fl in g["vorder"]}
    t = r["rt"]
    if g["directed"]:
        wanti = set()
        for u, v in g["eorder"]:
            if flag[repr(v)] == 1:
                wanti.add((repr(u), repr(v), "in"))
            else:
                wanti.add((repr(v), repr(u), "out"))
    else:
        wanti = {(repr(u), repr(v)) if flag[repr(v)] == 1 else (repr(v), repr(u)) for u, v in g["eorder"]}
    if inc_of(t) != wanti:
        fails.append(("insertion-order", f"incidences {sorted(inc_of(t))} vs the graph's node-edge pairs {sorted(wanti)}"))
    if sorted(map(repr, t["nodes"])) != sorted(repr(v) for v, fl in g["vorder"] if fl == 0):
        fails.append(("insertion-order", f"nodes {t['nodes']} vs bipartite=0 vertices"))
    return fails


# ----------------------------------------------------------------------------- case generation

UNDIRECTED_ONLY_DOC = {
    # converter -> the docstring line that names its input (quoted in ctx.assumptions)
    "hyperedge_list": "to_hyperedge_list: 'H : Hypergraph object / The hypergraph of interest'",
    "hyperedge_dict": "to_hyperedge_dict: 'H : Hypergraph object / The hypergraph of interest'",
    "incidence_labelled": "to_incidence_matrix: 'H : Hypergraph object / The hypergraph of interest'",
    "incidence_unlabelled": "to_incidence_matrix: 'H : Hypergraph object / The hypergraph of interest'",
    "dataframe": "to_bipartite_pandas_dataframe: 'H : Hypergraph or Simplicial Complex'",
    "hypergraph_dict": "to_hypergraph_dict: 'H : Hypergraph / The hypergraph to convert'",
}


def relabel(a, fn, fe):
    """the same network under other node / edge IDs"""
    b = dict(a)
    b["nodes"] = [fn(n) for n in a["nodes"]]
    b["edges"] = [[fe(e[0])] + [sorted((fn(x) for x in part), key=idkey) for part in e[1:]] for e in a["edges"]]
    b["nattr"] = [[fn(n), at] for n, at in a["nattr"]]
    b["eattr"] = [[fe(e), at] for e, at in a["eattr"]]
    return b


def option_cases(rng, a):
    """the option axis: every non-default way of calling a converter pair the statement still speaks about"""
    out = []
    directed = a["cls"] == "dhg"
    ns, es = [dec_id(n) for n in a["nodes"]], [dec_id(e[0]) for e in a["edges"]]
    all_int = all(isinstance(x, int) for x in ns + es)
    if not directed:
        out.append({"f": "hyperedge_list", "net": a, "opt": {"max_order": rng.choice([0, 1, 2])}})
        for lab in ("nodes", "edges"):
            out.append({"f": "incidence_labelled", "net": a, "sparse": rng.random() < 0.5, "opt": {"labels": lab, "array": rng.random() < 0.5}})
        out.append({"f": "incidence_unlabelled", "net": a, "sparse": rng.random() < 0.5, "opt": {"index": False}})
        out.append({"f": "bipartite_graph", "net": a, "opt": {"dual": True}})
        for cols in ("names", "reordered", "renamed", "positions-swapped", "dual"):
            out.append({"f": "dataframe", "net": a, "opt": {"columns": cols}})
        out.append({"f": "dataframe", "net": a, "using": "hg"})
        out.append({"f": "incidence_labelled", "net": a, "sparse": True, "using": "hg"})
        for k in (1, 2, 9):
            out.append({"f": "hypergraph_dict", "net": a, "opt": {"max_order": k},
                        "nodetype": nodetype_for(ns), "edgetype": nodetype_for(es)})
    out.append({"f": "bipartite_graph", "net": a, "opt": {"index": False}})
    # other public routes from the representation (or the network) to a network: the class constructor and the
    # to_hypergraph / to_dihypergraph / to_simplicial_complex converters it delegates to, called directly
    if not directed:
        back = a["cls"]       # a simplicial complex is read back as a simplicial complex where a reader for it exists
        for f in ("hyperedge_list", "hyperedge_dict", "dataframe"):
            out.append({"f": f, "net": a, "using": back, "via": rng.choice(VIAS)})
        out.append({"f": "incidence_unlabelled", "net": a, "sparse": rng.random() < 0.5, "via": rng.choice(VIAS)})
        if back == "sc":
            out.append({"f": "dataframe", "net": a, "using": "sc"})
        # a hyperedge list read into a simplicial complex, whole or cut at max_order
        out.append({"f": "hyperedge_list", "net": a, "using": "sc", "opt": {"max_order": rng.choice([None, 1, 2, 3])}})
        out.append({"f": "hyperedge_list", "net": a, "using": "sc", "opt": {"max_order": rng.choice([None, 1, 2])}, "via": rng.choice(VIAS)})
    else:
        for f in ("dimembers_dict", "dimembers_list"):
            out.append({"f": f, "net": a, "via": rng.choice(["ctor", "to-class", "to-instance"])})
    for tgt in (("hg", "dhg", "sc") if directed else ("hg", "sc")):
        out.append({"f": "class", "net": a, "target": tgt, "via": rng.choice(VIAS[1:])})
    if all_int:
        # real casts: digit-string IDs read back with int (-> the int IDs), int IDs read back without a cast / with str
        b = relabel(a, str, str)
        out.append({"f": "hif_dict", "net": b, "opt": {"cast": ["int", "int"]}})
        out.append({"f": "hif_dict", "net": b, "opt": {"cast": ["int", None]}})
        out.append({"f": "hif_dict", "net": a, "opt": {"cast": ["str", "str"]}})
        out.append({"f": "hif_dict", "net": a, "opt": {"cast": [None, "str"]}})
        if not directed:
            out.append({"f": "hypergraph_dict", "net": b, "nodetype": "int", "edgetype": "int"})
            out.append({"f": "hypergraph_dict", "net": b, "nodetype": "int", "edgetype": "none"})
            out.append({"f": "hypergraph_dict", "net": a, "nodetype": "none", "edgetype": "int"})
    return out


def cases_for(rng, a, options=None):
    """all converter-pair cases for one encoded network (+ `options` randomly chosen option cases; None = all)"""
    out = []
    directed = a["cls"] == "dhg"
    for f in CONVERTERS:
        c = {"f": f, "net": a}
        if directed and f not in DIRECTED_OK:
            c["directed_undocumented"] = True
        if f.startswith("incidence"):
            c["sparse"] = rng.random() < 0.5
        if f == "hypergraph_dict":
            c["nodetype"] = nodetype_for([dec_id(n) for n in a["nodes"]])
            c["edgetype"] = nodetype_for([dec_id(e[0]) for e in a["edges"]])
        if f == "class":
            for tgt in ("hg", "dhg", "sc"):
                out.append(dict(c, target=tgt))
            continue
        out.append(c)
        if a["cls"] == "sc" and f in ("hyperedge_list", "hyperedge_dict"):
            out.append(dict(c, using="sc"))
    oc = option_cases(rng, a)
    out += oc if options is None else rng.sample(oc, min(options, len(oc)))
    return out


def gen_graph_case(rng, a=None, invalid=False):
    """a bipartite graph of a generated network, built in a random vertex / edge insertion order and, when
    undirected, with each edge added as (node, edge) or (edge, node) at random"""
    a = a or gen_anet(rng, rng.choice(["hg", "hg", "dhg"]))
    directed = a["cls"] == "dhg"
    nodes = a["nodes"]
    style = rng.randrange(3)
    taken = {repr(n) for n in nodes}
    ev = {}
    for j, e in enumerate(a["edges"]):
        cand = [f"e:{e[0]}", 100 + j, e[0]][style]
        if repr(cand) in taken:
            cand = f"e:{e[0]}"
        taken.add(repr(cand))
        ev[repr(e[0])] = cand
    verts = [[n, 0] for n in nodes] + [[ev[repr(e[0])], 1] for e in a["edges"]]
    mode = rng.randrange(4)
    if mode == 0:
        rng.shuffle(verts)
    elif mode == 1:
        verts = verts[len(nodes):] + verts[:len(nodes)]  # edge-vertices first
    elif mode == 2:
        verts = verts[::-1]
    eorder = []
    for e in a["edges"]:
        x = ev[repr(e[0])]
        if directed:
            eorder += [[n, x] for n in e[1]] + [[x, n] for n in e[2]]
        else:
            eorder += [[n, x] if rng.random() < 0.5 else [x, n] for n in e[1]]
    if rng.random() < 0.7:
        rng.shuffle(eorder)
    c = {"f": "from_bipartite_graph", "graph": {"directed": directed, "vorder": verts, "eorder": eorder}, "expect": "ok"}
    if invalid and verts:
        k = rng.randrange(3)
        if k == 0:
            rng.choice(verts)[1] = None; c["expect"] = "err:lib"
        elif k == 1:
            rng.choice(verts)[1] = 2; c["expect"] = "err:lib"
        else:
            same = [v for v, fl in verts if fl == 0]
            if len(same) >= 2:
                u, v = rng.sample(same, 2)
                eorder.insert(rng.randint(0, len(eorder)), [u, v]); c["expect"] = "err:lib"
    return c
