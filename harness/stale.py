"""No hidden state: the result of a pure function of a network must depend on the network's CURRENT structure only.
Pattern exercised: call f(H); edit H in a way that keeps the node and edge counts; call f(H) again; the second result
must equal f(H.copy()) (a fresh object with the same structure).  A difference means a stale value was served
(memo keyed by the object and validated only by counts, cached index maps, …)."""
import warnings

import numpy as np
import xgi


def _dense(x):
    if isinstance(x, tuple):
        return tuple(_dense(y) for y in x)
    if hasattr(x, "toarray"):
        return np.asarray(x.toarray(), dtype=float)
    if isinstance(x, np.ndarray):
        return np.asarray(x, dtype=float)
    return x


def _same(a, b):
    if isinstance(a, tuple) and isinstance(b, tuple):
        return len(a) == len(b) and all(_same(x, y) for x, y in zip(a, b))
    if isinstance(a, np.ndarray) and isinstance(b, np.ndarray):
        return a.shape == b.shape and np.allclose(a, b, equal_nan=True)
    return a == b


def _call(f, H):
    with warnings.catch_warnings():
        warnings.simplefilter("ignore")
        try:
            return ("ok", _dense(f(H)))
        except Exception as e:  # noqa
            return ("err:" + type(e).__name__, None)


def count_preserving_edit_hg(rng, H):
    """an edit that keeps the numbers of nodes and edges — and, two times out of three, every node and edge ID as well:
    (a) remove one edge and add a different one (new automatic ID); (b) the same under the SAME edge ID; (c) move one node
    from an edge into another edge (membership-only change: no ID, no count changes)"""
    edges = list(H.edges)
    nodes = list(H.nodes)
    if not edges or len(nodes) < 2:
        return False
    kind = rng.choice("abc")
    if kind == "c" and len(edges) >= 2:
        for _ in range(20):
            e, f = rng.sample(edges, 2)
            movable = [n for n in H.edges.members(e) if n not in H.edges.members(f)]
            if movable and len(H.edges.members(e)) >= 2:
                n = rng.choice(movable)
                H.remove_node_from_edge(e, n, remove_empty=False)
                H.add_node_to_edge(f, n)
                return True
    e = rng.choice(edges)
    old = set(H.edges.members(e))
    if kind == "b":
        for _ in range(20):
            new = set(rng.sample(nodes, rng.randint(1, min(4, len(nodes)))))
            if new != old:
                attrs = dict(H.edges[e])
                H.remove_edge(e)
                H.add_edge(new, idx=e, **attrs)
                return len(H.nodes) == len(nodes)
        return False
    for _ in range(20):
        new = set(rng.sample(nodes, rng.randint(1, min(4, len(nodes)))))
        if new != old:
            break
    else:
        return False
    H.remove_edge(e)
    H.add_edge(new)
    return len(H.nodes) == len(nodes)


def check_hg(ctx, rng, gen_net, fns, n, site_prefix=""):
    """fns: {name: callable(H)}; gen_net(rng) -> xgi.Hypergraph"""
    for _ in range(n):
        H = gen_net(rng)
        first = {k: _call(f, H) for k, f in fns.items()}
        if not count_preserving_edit_hg(rng, H):
            continue
        ctx.evaluations += 1
        ctx.stats["stale-state-sequences"] += 1
        fresh = H.copy()
        for k, f in fns.items():
            again, ref = _call(f, H), _call(f, fresh)
            if again[0] != ref[0] or (again[0] == "ok" and not _same(again[1], ref[1])):
                ctx.violation(site_prefix + k, "stale-result-after-edit",
                              {"function": k, "nodes": [repr(x) for x in H.nodes], "edges_after_edit": {repr(e): sorted(map(repr, H.edges.members(e))) for e in H.edges},
                               "sequence": "f(H); remove an edge + add another (same counts); f(H) differs from f(H.copy())"},
                              detail=f"{k}: second call on the edited object differs from the same call on a fresh copy (stale value served)")


def check_sc(ctx, rng, gen_sc, fns, n, site_prefix=""):
    """the same for simplicial complexes: remove a maximal simplex, add another simplex so that counts agree"""
    for _ in range(n):
        S = gen_sc(rng)
        first = {k: _call(f, S) for k, f in fns.items()}
        ne, nn = S.num_edges, S.num_nodes
        maxs = list(S.edges.maximal())
        nodes = list(S.nodes)
        if not maxs or len(nodes) < 3:
            continue
        done = False
        for _try in range(30):
            T = S.copy()
            e = rng.choice(list(T.edges.maximal()))
            T.remove_simplex_id(e)
            new = rng.sample(nodes, rng.randint(2, min(3, len(nodes))))
            T.add_simplex(new)
            if T.num_edges == ne and T.num_nodes == nn and {frozenset(T.edges.members(x)) for x in T.edges} != {frozenset(S.edges.members(x)) for x in S.edges}:
                # replay the same edit on S itself (the object the first calls saw)
                S.remove_simplex_id(e)
                S.add_simplex(new)
                done = True
                break
        if not done:
            continue
        ctx.evaluations += 1
        ctx.stats["stale-state-sequences"] += 1
        fresh = S.copy()
        for k, f in fns.items():
            again, ref = _call(f, S), _call(f, fresh)
            if again[0] != ref[0] or (again[0] == "ok" and not _same(again[1], ref[1])):
                ctx.violation(site_prefix + k, "stale-result-after-edit",
                              {"function": k, "simplices_after_edit": sorted(sorted(map(repr, S.edges.members(x))) for x in S.edges),
                               "sequence": "f(S); remove a maximal simplex + add another (same counts); f(S) differs from f(S.copy())"},
                              detail=f"{k}: second call on the edited complex differs from the same call on a fresh copy (stale value served)")
