"""State-machine correspondence runner shared by the history properties (C01–C05, C18 …).

For every history: run it on the real implementation (snapshot after every op, also after ops that raised),
evaluate the property predicate on every snapshot (failing-input search, always on), then replay the same
request lines through the Lean model and compare the projections selected by `fields` step by step.
"""
import copy
import glob
import json
import os

from .core import Infra, VERIF, canon, jhash, run_driver


def shrink(ops, fails, budget=400):
    """greedy delta debugging: drop ops (then items inside bulk ops) while `fails(ops)` stays true"""
    ops = copy.deepcopy(ops)
    changed = True
    while changed and budget > 0:
        changed = False
        for i in range(len(ops) - 1, -1, -1):
            cand = ops[:i] + ops[i + 1:]
            budget -= 1
            if cand and fails(copy.deepcopy(cand)):
                ops, changed = cand, True
        for i, op in enumerate(ops):
            for key in ("items", "ns", "es"):
                if isinstance(op.get(key), list) and len(op[key]) > 1:
                    for j in range(len(op[key]) - 1, -1, -1):
                        cand = copy.deepcopy(ops)
                        del cand[i][key][j]
                        budget -= 1
                        if fails(copy.deepcopy(cand)):
                            ops, changed = cand, True
                            break
    return ops


def project(snap, fields):
    return {k: snap.get(k) for k in fields}


def first_pred_failure(M, ops, pred, derive=lambda s: s):
    """run ops on the implementation; return (index, failure_class, detail) of the first predicate failure"""
    H = M.factory()
    prev = derive(M.snapshot(H, "ok"))
    for i, op in enumerate(ops):
        out, exc = M.apply_impl(H, op)
        snap = derive(M.snapshot(H, out))
        fails = pred(snap, op, prev, exc)
        if fails:
            return i, fails[0][0], fails[0][1]
        prev = snap
    return None


def load_corpus(prop, shared=None, cls=None):
    """corpus histories for this property (+ a shared directory); a file may name its network class in "class"
    (default Hypergraph) and is used only by the matching state machine"""
    cases = []
    files = sorted(glob.glob(os.path.join(VERIF, "corpus", prop, "*.json")))
    if shared:
        files += sorted(glob.glob(os.path.join(VERIF, "corpus", shared, "*.json")))
    for f in files:
        try:
            j = json.load(open(f))
            if "ops" in j and (cls is None or j.get("class", "Hypergraph") == cls):
                cases.append(j["ops"])
        except Exception:  # noqa
            pass
    return cases


def run_sm(ctx, M, driver, fields, pred, n_hist, hist_len=(1, 30), weights=None, model_ok=True,
           corr_name="correspondence", extra_histories=(), derive=lambda s: s):
    """returns (disagreements, histories)"""
    rng = ctx.rng
    histories = [copy.deepcopy(h) for h in load_corpus(ctx.prop, getattr(M, 'CORPUS', None), getattr(M, 'NAME', None))] + [copy.deepcopy(h) for h in extra_histories]
    ctx.stats["corpus_histories"] = len(histories)
    histories += [M.gen_history(rng, hist_len[0], hist_len[1], weights) for _ in range(n_hist)]
    all_snaps = []
    for ops in histories:
        H = M.factory()
        prev = derive(M.snapshot(H, "ok"))
        snaps = []
        kinds = set()
        failed = False
        for i, op in enumerate(ops):
            out, exc = M.apply_impl(H, op)
            snap = derive(M.snapshot(H, out))
            snaps.append(snap)
            ctx.evaluations += 1
            ctx.stats["op:" + op["op"]] += 1
            ctx.stats["out:" + out] += 1
            kinds.add(op["op"])
            if M.nontrivial(snap, kinds):
                ctx.nontrivial.add(jhash(project(snap, fields)))
            if not failed:
                fails = pred(snap, op, prev, exc)
                if fails:
                    failed = True
                    cls = fails[0][0]
                    site = op["op"]

                    def still(cand, cls=cls, site=site):
                        r = first_pred_failure(M, cand, pred, derive)
                        return r is not None and r[1] == cls and cand[r[0]]["op"] == site
                    small = shrink(ops[: i + 1], still)
                    r = first_pred_failure(M, copy.deepcopy(small), pred, derive)
                    ctx.violation(site, cls, {"class": M.NAME, "ops": small}, detail=r[2] if r else fails[0][1])
            prev = snap
        all_snaps.append(snaps)
        ctx.sample({"ops": [M.to_request(o) for o in ops[:6]], "final": project(snaps[-1], fields) if snaps else None}, cap=2)
    ctx.stats["histories"] += len(histories)
    ctx.stats["histories:" + getattr(M, "NAME", "?")] += len(histories)
    if not model_ok:
        return [], histories
    # ---- model replay
    reqs, index = [], []
    for hi, ops in enumerate(histories):
        reqs.append({"op": "reset"}); index.append(None)
        for oi, op in enumerate(ops):
            reqs.append(M.to_request(op)); index.append((hi, oi))
    resps = run_driver(driver, reqs)
    disagreements = []
    dead = set()
    for r, ix in zip(resps, index):
        if ix is None:
            continue
        hi, oi = ix
        if hi in dead:
            continue
        if r.get("out") == "bad-op":
            raise Infra(f"model rejected request as bad-op (harness defect): {json.dumps(reqs[index.index(ix)])[:400]}")
        if r.get("out") == "unmodelled":
            ctx.stats["unmodelled_tail"] += 1
            dead.add(hi)
            continue
        m = project(derive(canon(r)), fields)
        im = project(all_snaps[hi][oi], fields)
        ctx.traces += 1
        if m != im:
            dead.add(hi)
            diff = [k for k in fields if m.get(k) != im.get(k)]
            disagreements.append((hi, oi, diff, m, im))
    for hi, oi, diff, m, im in disagreements[:50]:
        ops = histories[hi][: oi + 1]
        site = ops[-1]["op"]
        ctx.stats["disagree:" + site] += 1
        ctx.extra.setdefault("disagreements", [])
        if len(ctx.extra["disagreements"]) < 5:
            ctx.extra["disagreements"].append({"ops": [M.to_request(o) for o in ops], "fields": diff,
                                               "model": {k: m[k] for k in diff}, "impl": {k: im[k] for k in diff}})
    ctx.extra["disagreements_total"] = len(disagreements)
    if disagreements:
        ctx.broken.append(f"{corr_name}: model and implementation differ after {sorted({histories[h][o]['op'] for h, o, *_ in disagreements})}")
    return disagreements, histories


def targeted_search(ctx, M, pred, disagreements, histories, n=400, hist_len=(1, 30), derive=lambda s: s):
    """after a broken correspondence / obligation: look for a concrete failing input on the implementation,
    biased to the op kinds involved"""
    kinds = {}
    for hi, oi, *_ in disagreements:
        for op in histories[hi][: oi + 1]:
            kinds[op["op"]] = 30
    found = 0
    for _ in range(n):
        ops = M.gen_history(ctx.rng, hist_len[0], hist_len[1], kinds or None)
        r = first_pred_failure(M, copy.deepcopy(ops), pred, derive)
        ctx.stats["targeted_histories"] += 1
        if r:
            i, cls, detail = r
            site = ops[i]["op"]

            def still(cand, cls=cls, site=site):
                rr = first_pred_failure(M, cand, pred, derive)
                return rr is not None and rr[1] == cls and cand[rr[0]]["op"] == site
            small = shrink(ops[: i + 1], still)
            ctx.violation(site, cls, {"class": M.NAME, "ops": small}, detail=detail)
            found += 1
    return found


def replay_sm(ctx, M, driver, fields, pred, path, derive=lambda s: s):
    """re-execute the history of a replay file on the current tree: predicate + correspondence; prints the verdict"""
    j = json.load(open(path))
    ops = j["case"]["ops"] if "ops" in j.get("case", {}) else None
    if ops is None:
        print(f"replay {path}: no history in this replay (kind={j.get('kind')}); broken: {j.get('broken')}")
        return 2
    r = first_pred_failure(M, copy.deepcopy(ops), pred, derive)
    if r:
        i, cls, detail = r
        print(f"VIOLATION property={ctx.prop} replay={path}")
        print(f"  reproduced: after op #{i} ({ops[i]['op']}): {cls}: {detail}")
        return 1
    # correspondence
    H = M.factory()
    snaps = []
    for op in ops:
        out, _ = M.apply_impl(H, op)
        snaps.append(derive(M.snapshot(H, out)))
    resps = run_driver(driver, [{"op": "reset"}] + [M.to_request(o) for o in ops])[1:]
    for i, (s, m) in enumerate(zip(snaps, resps)):
        if m.get("out") in ("unmodelled", "bad-op"):
            break
        mm = project(derive(canon(m)), fields)
        if mm != project(s, fields):
            diff = [k for k in fields if mm.get(k) != s.get(k)]
            print(f"VIOLATION property={ctx.prop} replay={path}")
            print(f"  reproduced: model and implementation differ after op #{i} ({ops[i]['op']}) on {diff}")
            return 1
    print(f"replay {path}: not reproduced on the current tree (predicate holds, model and implementation agree)")
    return 0
