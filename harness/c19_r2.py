"""C19, second-round families.  PREDICATE ONLY: none of these inputs is inside the Lean model (which describes
xgi.Hypergraph with int / str / tuple IDs and one call per network); what is decided here is decided at run time.

A case is a small script run on ONE network object that is held across the steps:

    {"f": "r2", "fam": <family>, "cls": "hg"|"sc"|"dh"|"myhg"|"mysc", "net": <encoding>, "steps": [step, ...]}
    step = {"op": "call", "fn": <function>, ...arguments...}  |  {"op": "edit", "kind": ..., ...}

Every "call" step is judged against the set-theoretic definition of the function, computed by brute force from the
public views of the object AS IT IS RIGHT BEFORE THE CALL (so a value remembered from before an edit shows as a wrong
result), and must leave the object exactly as it was.  Families:

* class     — SimplicialComplex, DiHypergraph and trivial subclasses of Hypergraph / SimplicialComplex through
              subhypergraph (node / edge selections), largest_connected_hypergraph, dual, dual∘dual, <<, complement,
              cut_to_order, k_skeleton, from_max_simplices, convert_labels_to_integers
* held      — call, edit (count-preserving: remove an edge / a maximal simplex and add another; ordinary: add / remove
              nodes and edges, set attributes), call again with the same and with other arguments
* labels    — tuple node labels and tuple edge IDs; node labels that float() cannot read (datetime.date, Enum members,
              frozenset, bytes) — the dual turns node labels into edge IDs
* container — selections of subhypergraph as list / tuple / set / frozenset / dict view / generator / numpy array
* regime    — one network with >= 70 nodes, >= 130 parallel edges, integer labels and edge IDs around 2**53
"""
import copy
import datetime
import enum
import itertools
import json
import signal
import warnings

import numpy as np
import xgi
from xgi.exception import XGIError


class Colour(enum.Enum):
    RED = 1
    GREEN = 2
    BLUE = 3


class MyH(xgi.Hypergraph):
    pass


class MyS(xgi.SimplicialComplex):
    pass


CLS = {"hg": xgi.Hypergraph, "sc": xgi.SimplicialComplex, "dh": xgi.DiHypergraph, "myhg": MyH, "mysc": MyS}
SC_LIKE = ("sc", "mysc")

# ----------------------------------------------------------------------------- labels


def xenc(x):
    """label -> JSON (also the labels outside core.enc_id)"""
    if isinstance(x, bool):
        raise ValueError(x)
    if isinstance(x, (int, np.integer)):
        return int(x)
    if isinstance(x, str):
        return x
    if isinstance(x, tuple):
        return [xenc(y) for y in x]
    if isinstance(x, datetime.date):
        return {"$date": [x.year, x.month, x.day]}
    if isinstance(x, Colour):
        return {"$enum": x.name}
    if isinstance(x, frozenset):
        return {"$fs": sorted((xenc(y) for y in x), key=lambda v: json.dumps(v, sort_keys=True))}
    if isinstance(x, bytes):
        return {"$bytes": x.decode("latin1")}
    raise ValueError(f"label outside the encoding: {x!r}")


def xdec(j):
    if isinstance(j, list):
        return tuple(xdec(y) for y in j)
    if isinstance(j, dict):
        if "$date" in j:
            return datetime.date(*j["$date"])
        if "$enum" in j:
            return Colour[j["$enum"]]
        if "$fs" in j:
            return frozenset(xdec(y) for y in j["$fs"])
        if "$bytes" in j:
            return j["$bytes"].encode("latin1")
    return j


def key(x):
    """canonical hashable text of a label"""
    return json.dumps(xenc(x), sort_keys=True)


def akey(d):
    return json.dumps({str(k): v for k, v in dict(d).items()}, sort_keys=True, default=lambda o: key(o) if not isinstance(o, (set, dict)) else repr(o))


# ----------------------------------------------------------------------------- building, viewing

def build(cls, net):
    N = CLS[cls]()
    na = {json.dumps(k, sort_keys=True): a for k, a in net.get("nattr", [])}
    ea = {json.dumps(k, sort_keys=True): a for k, a in net.get("eattr", [])}
    for n in net["nodes"]:
        N.add_node(xdec(n), **na.get(json.dumps(n, sort_keys=True), {}))
    with warnings.catch_warnings():
        warnings.simplefilter("ignore")
        if cls in SC_LIKE:
            items = [([xdec(x) for x in p[1]], xdec(p[0]), dict(ea.get(json.dumps(p[0], sort_keys=True), {}))) for p in net["edges"]]
            if items:
                N.add_simplices_from(items)     # every simplex of the closed complex is listed: no face gets a fresh ID
        elif cls == "dh":
            for p in net["edges"]:
                N.add_edge(([xdec(x) for x in p[1]], [xdec(x) for x in p[2]]), idx=xdec(p[0]), **ea.get(json.dumps(p[0], sort_keys=True), {}))
        else:
            for p in net["edges"]:
                N.add_edge([xdec(x) for x in p[1]], idx=xdec(p[0]), **ea.get(json.dumps(p[0], sort_keys=True), {}))
    for k, v in net.get("net", {}).items():
        N[k] = v
    return N


def enc_net(N):
    d = isinstance(N, xgi.DiHypergraph)
    if d:
        edges = [[xenc(e), [xenc(x) for x in N.edges.tail(e)], [xenc(x) for x in N.edges.head(e)]] for e in N.edges]
    else:
        edges = [[xenc(e), [xenc(x) for x in N.edges.members(e)]] for e in N.edges]
    return {"nodes": [xenc(n) for n in N.nodes], "edges": edges,
            "nattr": [[xenc(n), dict(N.nodes[n])] for n in N.nodes if N.nodes[n]],
            "eattr": [[xenc(e), dict(N.edges[e])] for e in N.edges if N.edges[e]], "net": dict(N._net_attr)}


class View:
    """plain picture of a network through its public views; every ID as its canonical text"""

    def __init__(self, N):
        self.directed = isinstance(N, xgi.DiHypergraph)
        self.cls = type(N).__name__
        self.sc = isinstance(N, xgi.SimplicialComplex)
        self.nodes = [key(n) for n in N.nodes]
        self.edges = [key(e) for e in N.edges]
        if self.directed:
            self.mem = {key(e): (frozenset(map(key, N.edges.dimembers(e)[0])), frozenset(map(key, N.edges.dimembers(e)[1]))) for e in N.edges}
        else:
            self.mem = {key(e): (frozenset(map(key, N.edges.members(e))), frozenset()) for e in N.edges}
        self.und = {e: t | h for e, (t, h) in self.mem.items()}
        self.nattr = {key(n): akey(N.nodes[n]) for n in N.nodes}
        self.eattr = {key(e): akey(N.edges[e]) for e in N.edges}
        self.raw_nattr = {key(n): dict(N.nodes[n]) for n in N.nodes}
        self.raw_eattr = {key(e): dict(N.edges[e]) for e in N.edges}
        self.net = akey(N._net_attr)
        self.frozen = bool(N.is_frozen)

    def state(self):
        return (self.nodes, self.edges, self.mem, self.nattr, self.eattr, self.net, self.frozen)


def components(nodes, und):
    parent = {n: n for n in nodes}

    def find(x):
        while parent[x] != x:
            parent[x] = parent[parent[x]]
            x = parent[x]
        return x
    for ms in und.values():
        ms = [m for m in ms if m in parent]
        for a in ms[1:]:
            parent[find(a)] = find(ms[0])
    comps = {}
    for n in nodes:
        comps.setdefault(find(n), []).append(n)
    return list(comps.values())


# ----------------------------------------------------------------------------- one call

def as_container(kind, labels):
    if labels is None:
        return None
    xs = [xdec(x) for x in labels]
    if kind == "tuple":
        return tuple(xs)
    if kind == "set":
        return set(xs)
    if kind == "frozenset":
        return frozenset(xs)
    if kind == "dictkeys":
        return dict.fromkeys(xs).keys()
    if kind == "generator":
        return (x for x in xs)
    if kind == "ndarray":
        return np.array(xs)
    return list(xs)


def do_call(step, N, N2=None):
    fn = step["fn"]
    if fn == "sub":
        return xgi.subhypergraph(N, nodes=as_container(step.get("nodes_kind"), step.get("nodes")),
                                 edges=as_container(step.get("edges_kind"), step.get("edges")), keep_isolates=step.get("keep_isolates", True))
    if fn == "lch":
        return xgi.largest_connected_hypergraph(N)
    if fn == "dual":
        return N.dual()
    if fn == "dual2":
        return N.dual().dual()
    if fn == "lshift":
        return N << N2
    if fn == "complement":
        return xgi.complement(N)
    if fn == "cut":
        return xgi.cut_to_order(N, step["order"])
    if fn == "kskel":
        return xgi.k_skeleton(N, step["order"])
    if fn == "fms":
        return xgi.from_max_simplices(N)
    if fn == "relabel":
        return xgi.convert_labels_to_integers(N, label_attribute=step.get("label_attribute", "label"))
    raise AssertionError(fn)


SITE = {"sub": "subhypergraph", "lch": "largest_connected_hypergraph", "dual": "{C}.dual", "dual2": "{C}.dual", "lshift": "{C}.__lshift__",
        "complement": "complement", "cut": "cut_to_order", "kskel": "k_skeleton", "fms": "from_max_simplices",
        "relabel": "convert_labels_to_integers"}
BASE = {"hg": "Hypergraph", "myhg": "Hypergraph", "sc": "SimplicialComplex", "mysc": "SimplicialComplex", "dh": "DiHypergraph"}


def site_of(case, step):
    return SITE[step["fn"]].replace("{C}", BASE[case["cls"]])


def judge(case, step, A, R, Rv, exc, A2=None):
    """[(failure_class, detail)] of one call: A = view of the argument before the call, R = the returned object,
    Rv = its view (None when the call raised)"""
    fn = step["fn"]
    cls = case["cls"]
    scl = cls in SC_LIKE
    sizes = [len(u) for u in A.und.values()]
    max_order = (max(sizes) - 1) if sizes else (0 if A.nodes else None)
    what = f"{fn}({ {k: v for k, v in step.items() if k not in ('op', 'fn')} }) on a {A.cls}"
    if exc is not None:
        if fn in ("cut", "kskel") and (max_order is None or step["order"] > max_order):
            if max_order is not None and not isinstance(exc, XGIError):
                return [("wrong-error", f"{what}: order above the maximum {max_order} must raise XGIError, got {type(exc).__name__}: {exc}")]
            return []
        if fn in ("cut", "kskel"):
            return [("raised-for-admissible-order", f"{what} raised {type(exc).__name__}: {exc} (the maximum order is {max_order})")]
        return [("raised", f"{what} raised {type(exc).__name__}: {exc}")]
    fails = []
    bad = lambda c, d: fails.append((c, f"{what}: {d}"[:600]))

    def same_items(part, want_nodes, want_edges, src=A, attrs=True, note=""):
        """the result has exactly these nodes / edges (in this order), each with the members and attributes it has in `src`"""
        if Rv.nodes != want_nodes:
            bad("nodes", f"nodes {Rv.nodes}, wanted {want_nodes}")
        elif Rv.edges != want_edges:
            bad(part, f"edges {Rv.edges}, wanted {want_edges}")
        else:
            for e in want_edges:
                if Rv.mem[e] != src.mem[e]:
                    bad("members", f"edge {e}: {sorted(map(sorted, Rv.mem[e]))}, in the argument {sorted(map(sorted, src.mem[e]))}")
                    break
            if attrs:
                if [Rv.nattr[n] for n in want_nodes] != [src.nattr[n] for n in want_nodes]:
                    bad("node-attrs", f"{Rv.nattr} vs {src.nattr}")
                if [Rv.eattr[e] for e in want_edges] != [src.eattr[e] for e in want_edges]:
                    bad("edge-attrs", f"{Rv.eattr} vs {src.eattr}" + note)
                if Rv.net != src.net:
                    bad("net-attrs", f"{Rv.net} vs {src.net}")

    def closed(V):
        sets = set(V.und.values())
        for t in sets:
            for k in range(2, len(t)):
                for c in itertools.combinations(sorted(t), k):
                    if frozenset(c) not in sets:
                        return f"{sorted(t)} is a simplex of the result, its face {sorted(c)} is not"
        return None

    if fn == "sub":
        sel_n = set(A.nodes) if step.get("nodes") is None else ({json.dumps(x, sort_keys=True) for x in step["nodes"]} & set(A.nodes))
        sel_e = set(A.edges) if step.get("edges") is None else ({json.dumps(x, sort_keys=True) for x in step["edges"]} & set(A.edges))
        qual = [e for e in A.edges if e in sel_e and A.und[e] <= sel_n]
        # every returned edge ID must be an ID of the argument naming the same member set
        open_sel = scl and any(A.und[e] < A.und[q] and e not in set(qual) for q in qual for e in A.edges)
        for e in Rv.edges:
            if e not in A.mem or Rv.mem[e] != A.mem[e]:
                bad("edge-id-names-other-members", f"the result's edge {e} = {sorted(Rv.und[e])}, in the argument "
                    f"{sorted(A.und[e]) if e in A.und else 'no such ID'}; requested edges {qual}, returned {Rv.edges}"
                    + (" (the requested simplices are not closed under faces)" if open_sel else ""))
                return fails
        if scl:
            # the sub-complex generated by the requested simplices: these, plus faces of them, under their own IDs
            allowed = [e for e in A.edges if any(A.und[e] <= A.und[q] for q in qual)]
            if not (set(qual) <= set(Rv.edges) <= set(allowed)):
                bad("edges", f"edges {Rv.edges}; requested {qual}; faces of them in the argument {allowed}")
            want_e = [e for e in A.edges if e in set(Rv.edges)]
            pb = closed(Rv)
            if pb:
                bad("result-not-closed", pb)
        else:
            want_e = qual
        want_n = [n for n in A.nodes if n in sel_n]
        if not step.get("keep_isolates", True):
            used = set().union(*[A.und[e] for e in want_e]) if want_e else set()
            want_n = [n for n in want_n if n in used]
        same_items("edges", want_n, want_e, note=" (the requested simplices are not closed under faces)" if open_sel else "")
        if not Rv.frozen:
            bad("frozen", "the view is not frozen")
        if type(R).__name__ != A.cls:
            bad("class", f"result is a {type(R).__name__}")

    elif fn == "lch":
        comps = components(A.nodes, A.und)
        big = max(len(c) for c in comps)
        if set(Rv.nodes) not in [set(c) for c in comps]:
            bad("not-a-component", f"{Rv.nodes} vs {comps}")
        elif len(Rv.nodes) != big:
            bad("not-largest", f"{Rv.nodes} vs {comps}")
        else:
            keep = set(Rv.nodes)
            same_items("edges", [n for n in A.nodes if n in keep], [e for e in A.edges if A.und[e] <= keep])
        if Rv.frozen:
            bad("frozen", "result frozen")
        if type(R).__name__ != A.cls:
            bad("class", f"result is a {type(R).__name__}")

    elif fn == "dual":
        want_mem = {n: frozenset(e for e in A.edges if n in A.und[e]) for n in A.nodes}
        diff = []
        if sorted(Rv.nodes) != sorted(A.edges):
            diff.append(f"nodes {Rv.nodes} are not the edges {A.edges}")
        if Rv.edges != A.nodes:
            diff.append(f"edges {Rv.edges} are not the nodes {A.nodes}")
        elif {e: Rv.und[e] for e in Rv.edges} != want_mem:
            diff.append(f"members {[(e, sorted(Rv.und[e])) for e in Rv.edges]} are not the memberships {[(n, sorted(m)) for n, m in want_mem.items()]}")
        elif sorted(Rv.nodes) == sorted(A.edges) and ({n: Rv.nattr[n] for n in Rv.nodes} != A.eattr or {e: Rv.eattr[e] for e in Rv.edges} != A.nattr or Rv.net != A.net):
            diff.append("attributes are not exchanged")
        if diff:
            bad("not-the-dual", "; ".join(diff))

    elif fn == "dual2":
        diff = []
        if sorted(Rv.nodes) != sorted(A.nodes):
            diff.append(f"nodes {Rv.nodes} vs {A.nodes}")
        if sorted(Rv.edges) != sorted(A.edges):
            diff.append(f"edges {Rv.edges} vs {A.edges}")
        elif Rv.und != A.und:
            diff.append(f"members {[(e, sorted(m)) for e, m in Rv.und.items()]} vs {[(e, sorted(m)) for e, m in A.und.items()]}")
        elif sorted(Rv.nodes) == sorted(A.nodes) and (Rv.nattr != A.nattr or Rv.eattr != A.eattr or Rv.net != A.net):
            diff.append("attributes differ")
        if diff:
            bad("not-an-involution", "; ".join(diff))

    elif fn == "lshift":
        want_n = A.nodes + [n for n in A2.nodes if n not in set(A.nodes)]
        if Rv.nodes != want_n:
            bad("nodes", f"{Rv.nodes} vs {want_n}")
        if Rv.edges != [key(i) for i in range(len(A.edges) + len(A2.edges))]:
            bad("edges", f"{Rv.edges}")
        elif [Rv.und[e] for e in Rv.edges] != [A.und[e] for e in A.edges] + [A2.und[e] for e in A2.edges]:
            bad("members", f"{[sorted(Rv.und[e]) for e in Rv.edges]}")
        elif [Rv.eattr[e] for e in Rv.edges] != [A.eattr[e] for e in A.edges] + [A2.eattr[e] for e in A2.edges]:
            bad("edge-attrs", f"{Rv.eattr}")

    elif fn == "complement":
        if Rv.nodes != A.nodes:
            bad("nodes", f"{Rv.nodes} vs {A.nodes}")
        elif A.nodes:
            k = max(sizes) if sizes else 1
            want = {frozenset(c) for r in range(1, min(k, len(A.nodes)) + 1) for c in itertools.combinations(A.nodes, r)} - set(A.und.values())
            got = [Rv.und[e] for e in Rv.edges]
            if len(set(got)) != len(got):
                bad("repeated-edge", f"{sorted(map(sorted, got))}")
            elif set(got) != want:
                bad("absent-sets", f"missing {sorted(map(sorted, want - set(got)))[:6]}, extra {sorted(map(sorted, set(got) - want))[:6]} "
                                   f"(node sets of the argument: {sorted(map(sorted, A.und.values()))}, largest size {k})")

    elif fn in ("cut", "kskel"):
        if max_order is not None and step["order"] > max_order:
            bad("accepted-order-above-max", f"order {step['order']} > {max_order}")
        else:
            want_e = [e for e in A.edges if len(A.und[e]) - 1 <= step["order"]]
            if Rv.nodes == A.nodes and Rv.edges != want_e and set(want_e) < set(Rv.edges):
                bad("kept-edges-above-order", f"kept {[(e, len(Rv.und[e]) - 1) for e in Rv.edges if e not in set(want_e)]} (edge, order) above the order {step['order']}")
            else:
                same_items("edges", A.nodes, want_e)
            if Rv.frozen:
                bad("frozen", "result frozen")
            if type(R).__name__ != A.cls:
                bad("class", f"result is a {type(R).__name__}")

    elif fn == "fms":
        sets = set(A.und.values())
        want = [A.und[e] for e in A.edges if not any(A.und[e] < t for t in sets)]
        if Rv.nodes != A.nodes:
            bad("nodes", f"{Rv.nodes} vs {A.nodes}")
        if [Rv.und[e] for e in Rv.edges] != want:
            bad("maximal-simplices", f"{[sorted(Rv.und[e]) for e in Rv.edges]} vs {[sorted(w) for w in want]}")
        elif Rv.edges != [key(i) for i in range(len(want))]:
            bad("edge-ids", f"{Rv.edges}")

    elif fn == "relabel":
        la = step.get("label_attribute", "label")
        pos = {n: key(i) for i, n in enumerate(A.nodes)}
        if Rv.nodes != [key(i) for i in range(len(A.nodes))] or Rv.edges != [key(i) for i in range(len(A.edges))]:
            bad("labels-not-a-range", f"{Rv.nodes} {Rv.edges}")
        else:
            for i, e in enumerate(A.edges):
                if Rv.mem[key(i)] != tuple(frozenset(pos[x] for x in side) for side in A.mem[e]):
                    bad("members", f"edge {e}")
                    break
            old_n = [key(Rv.raw_nattr[key(i)].get(la)) if Rv.raw_nattr[key(i)].get(la) is not None else None for i in range(len(A.nodes))]
            old_e = [key(Rv.raw_eattr[key(i)].get(la)) if Rv.raw_eattr[key(i)].get(la) is not None else None for i in range(len(A.edges))]
            if old_n != A.nodes or old_e != A.edges:
                bad("old-label-not-recorded", f"recorded {old_n} / {old_e}, the old labels are {A.nodes} / {A.edges}")
    return fails


CALL_SECONDS = 3


class CallTimeout(Exception):
    pass


class watchdog:
    """a library call that does not return within the limit is reported like a call that raised (SIGALRM, main thread)"""

    def __init__(self, seconds):
        self.seconds = seconds

    def __enter__(self):
        try:
            self.old = signal.signal(signal.SIGALRM, self._fire)
            signal.alarm(self.seconds)
        except (ValueError, AttributeError):
            self.old = None

    def _fire(self, *_):
        raise CallTimeout(f"no result after {self.seconds} s")

    def __exit__(self, *exc):
        if self.old is not None:
            signal.alarm(0)
            signal.signal(signal.SIGALRM, self.old)
        return False


def run_case(case):
    """[(site, failure_class, detail, step index)] of a case"""
    out = []
    with warnings.catch_warnings():
        warnings.simplefilter("ignore")
        N = build(case["cls"], case["net"])
        N2 = build(case.get("cls2", "hg"), case["net2"]) if "net2" in case else None
        for i, st in enumerate(case["steps"]):
            if st["op"] == "edit":
                try:
                    apply_edit(N, st)
                except Exception:  # noqa   (an edit that is refused is not this property's business)
                    pass
                continue
            A = View(N)
            A2 = View(N2) if N2 is not None else None
            exc = R = Rv = None
            try:
                with watchdog(CALL_SECONDS):
                    R = do_call(st, N, N2)
                Rv = View(R)
            except Exception as e:  # noqa
                exc = e
            fails = judge(case, st, A, R, Rv, exc, A2)
            after = View(N)
            if after.state() != A.state():
                fails.append(("argument-mutated", f"{st['fn']} changed its argument: nodes {A.nodes} -> {after.nodes}, edges {A.edges} -> {after.edges}"))
            elif R is N or (N2 is not None and R is N2):
                fails.append(("argument-mutated", f"{st['fn']} returned its argument, not a new network"))
            for c, d in fails:
                out.append((site_of(case, st), c, (f"step {i} (after {sum(1 for s in case['steps'][:i] if s['op'] == 'edit')} edits): " if i else "") + d, i))
    return out


def apply_edit(N, st):
    k = st["kind"]
    if k == "remove_edge":
        N.remove_edge(xdec(st["id"]))
    elif k == "add_edge":
        if isinstance(N, xgi.DiHypergraph):
            N.add_edge(([xdec(x) for x in st["members"]], [xdec(x) for x in st["head"]]), idx=xdec(st["id"]))
        else:
            N.add_edge([xdec(x) for x in st["members"]], idx=xdec(st["id"]))
    elif k == "remove_simplex_id":
        N.remove_simplex_id(xdec(st["id"]))
    elif k == "add_simplex":
        N.add_simplex([xdec(x) for x in st["members"]], idx=xdec(st["id"]))
    elif k == "remove_node":
        N.remove_node(xdec(st["id"]))
    elif k == "add_node":
        N.add_node(xdec(st["id"]))
    elif k == "set_edge_attr":
        N.set_edge_attributes({xdec(st["id"]): {st["key"]: st["value"]}})
    elif k == "set_node_attr":
        N.set_node_attributes({xdec(st["id"]): {st["key"]: st["value"]}})
    else:
        raise AssertionError(k)


# ----------------------------------------------------------------------------- generation

INT_LABELS = [lambda k: list(range(k)), lambda k: [7 * i + 3 for i in range(k)][::-1], lambda k: [-2, 0, 5, 11, 3, 8, 1, 9][:k]]
STR_LABELS = [lambda k: list("abcdefgh")[:k], lambda k: [1, "a", 2, "b", 3, "c", 4, "d"][:k],
              # labels whose str() coincide or contain separators: any text encoding of a node set must not confuse them
              lambda k: [1, "1", 2, "2", "1,2", 12, "12", "a,b"][:k], lambda k: ["a", "b", "a,b", "a b", "ab", "", " ", ","][:k]]
TUPLE_LABELS = [lambda k: [(i // 2, i % 2) for i in range(k)], lambda k: [("a", i) for i in range(k)], lambda k: [(i,) if i % 2 else (i, i + 1, "z") for i in range(k)]]
EXOTIC_LABELS = [lambda k: [datetime.date(2024, 1, 1 + i) for i in range(k)], lambda k: [list(Colour)[i % 3] if i < 3 else i for i in range(k)],
                 lambda k: [frozenset([i, i + 1]) for i in range(k)], lambda k: [b"x%d" % i for i in range(k)], lambda k: [b"%d" % (12 + i) for i in range(k)]]
TUPLE_EIDS = [lambda m: [(i, i + 1) for i in range(m)], lambda m: [("e", i) for i in range(m)], lambda m: [i if i % 2 else (i, "x") for i in range(m)]]
PLAIN_EIDS = [lambda m: list(range(m)), lambda m: [f"e{i}" for i in range(m)], lambda m: [10 * i + 5 for i in range(m)][::-1]]


def rand_attrs(rng, p=0.4):
    return {rng.choice(["w", "color", "label"]): rng.choice([0, 1, 2, "r", "g"])} if rng.random() < p else {}


def gen_net(rng, cls, labels=None, eids=None, max_nodes=6, max_edges=5, attrs=0.4):
    k = rng.randint(2, max_nodes)
    nodes = (labels or rng.choice(INT_LABELS + STR_LABELS))(k)
    nodes = list(nodes)
    rng.shuffle(nodes)
    m = rng.randint(1, max_edges)
    N = CLS[cls]()
    N.add_nodes_from(nodes)
    if cls in SC_LIKE:
        for _ in range(min(m, 3)):
            N.add_simplex(rng.sample(nodes, rng.randint(1, min(4, k))))
        old = list(N.edges)
        new = (eids or rng.choice(PLAIN_EIDS))(len(old))
        enc = {"nodes": [xenc(n) for n in N.nodes], "edges": [[xenc(new[i]), [xenc(x) for x in N.edges.members(e)]] for i, e in enumerate(old)]}
    else:
        ids = (eids or rng.choice(PLAIN_EIDS))(m)
        edges = []
        for i in range(m):
            ms = rng.sample(nodes, rng.randint(1 if cls != "dh" else 1, min(4, k)))
            if i and rng.random() < 0.2:
                ms = list(edges[-1][1])       # a repeated edge
            edges.append([ids[i], ms])
        if cls == "dh":
            enc_e = []
            for e, ms in edges:
                c = rng.randint(0, len(ms))
                head = ms[c:] + ([rng.choice(nodes)] if rng.random() < 0.3 else [])
                enc_e.append([xenc(e), [xenc(x) for x in ms[:c]], [xenc(x) for x in dict.fromkeys(head)]])
        else:
            enc_e = [[xenc(e), [xenc(x) for x in ms]] for e, ms in edges]
        enc = {"nodes": [xenc(n) for n in nodes], "edges": enc_e}
    enc["nattr"] = [[n, a] for n in enc["nodes"] for a in [rand_attrs(rng, attrs)] if a]
    enc["eattr"] = [[p[0], a] for p in enc["edges"] for a in [rand_attrs(rng, attrs)] if a]
    enc["net"] = rand_attrs(rng, 0.3)
    return enc


def sizes_of(net):
    return [len(set(map(lambda x: json.dumps(x, sort_keys=True), sum(p[1:], [])))) for p in net["edges"]]


def gen_call(rng, cls, net, fn=None, kinds=("list",)):
    fns = {"hg": ["sub", "lch", "dual", "dual2", "complement", "cut", "relabel"], "dh": ["cut", "cut", "complement", "relabel"],
           "sc": ["sub", "sub", "lch", "dual", "dual2", "complement", "cut", "kskel", "fms", "relabel"]}
    fns["myhg"], fns["mysc"] = fns["hg"], fns["sc"]
    fn = fn or rng.choice(fns[cls])
    st = {"op": "call", "fn": fn}
    if fn == "sub":
        pick = lambda pool: None if rng.random() < 0.35 else [x for x in pool if rng.random() < 0.6] + ([99] if rng.random() < 0.15 else [])
        st["nodes"], st["edges"] = pick(net["nodes"]), pick([p[0] for p in net["edges"]])
        st["keep_isolates"] = rng.random() < 0.6
        st["nodes_kind"], st["edges_kind"] = rng.choice(kinds), rng.choice(kinds)
    elif fn in ("cut", "kskel"):
        sz = sizes_of(net)
        st["order"] = rng.randint(0, max(sz) - 1 if sz else 0) if rng.random() < 0.8 else rng.randint(-1, 4)
    elif fn == "relabel":
        st["label_attribute"] = rng.choice(["label", "old"])
    if fn in ("dual", "dual2") and cls in SC_LIKE:
        # (the inherited dual of a complex closes the result under faces again: 2^k steps for a node in k simplices —
        # review 2 V14; kept to small memberships so that the defect shows without stalling the run)
        deg = {}
        for p in net["edges"]:
            for x in p[1]:
                deg[json.dumps(x, sort_keys=True)] = deg.get(json.dumps(x, sort_keys=True), 0) + 1
        if max(deg.values(), default=0) > 4:
            st["fn"] = "fms"
    if fn in ("lch", "complement") and not net["nodes"]:
        st["fn"] = "dual" if cls != "dh" else "relabel"
    return st


def gen_edit(rng, N, fresh):
    """one edit of the CURRENT object (executed on it); `fresh` yields unused IDs.  Returns the steps"""
    sc = isinstance(N, xgi.SimplicialComplex)
    nodes, edges = list(N.nodes), list(N.edges)
    r = rng.random()
    if sc:
        maxs = list(N.edges.maximal())
        if r < 0.6 and maxs and len(nodes) >= 2:      # count-preserving where possible: drop a maximal simplex, add another
            steps = [{"op": "edit", "kind": "remove_simplex_id", "id": xenc(rng.choice(maxs))},
                     {"op": "edit", "kind": "add_simplex", "members": [xenc(x) for x in rng.sample(nodes, rng.randint(2, min(3, len(nodes))))], "id": fresh()}]
        elif r < 0.8:
            steps = [{"op": "edit", "kind": "add_simplex", "members": [xenc(x) for x in rng.sample(nodes, rng.randint(1, min(3, len(nodes))))] + [fresh()], "id": fresh()}]
        else:
            steps = [{"op": "edit", "kind": "remove_node", "id": xenc(rng.choice(nodes))}] if nodes else []
    else:
        if r < 0.5 and edges and len(nodes) >= 2:     # count-preserving: remove an edge, add another (same numbers of nodes and edges)
            steps = [{"op": "edit", "kind": "remove_edge", "id": xenc(rng.choice(edges))},
                     {"op": "edit", "kind": "add_edge", "members": [xenc(x) for x in rng.sample(nodes, rng.randint(1, min(3, len(nodes))))], "id": fresh()}]
        elif r < 0.65 and nodes:                      # count-preserving on the nodes too: a node leaves, an edge brings a new one
            steps = [{"op": "edit", "kind": "remove_node", "id": xenc(rng.choice(nodes))},
                     {"op": "edit", "kind": "add_node", "id": fresh()}]
        elif r < 0.8:
            steps = [{"op": "edit", "kind": "add_edge", "members": [xenc(x) for x in rng.sample(nodes, min(2, len(nodes)))] + [fresh()], "id": fresh()}]
        elif r < 0.9 and edges:
            steps = [{"op": "edit", "kind": "set_edge_attr", "id": xenc(rng.choice(edges)), "key": "w", "value": rng.randint(5, 9)}]
        else:
            steps = [{"op": "edit", "kind": "remove_edge", "id": xenc(rng.choice(edges))}] if edges else []
    with warnings.catch_warnings():
        warnings.simplefilter("ignore")
        for s in steps:
            try:
                apply_edit(N, s)
            except Exception:  # noqa
                pass
    return steps


def gen_cases(rng, n):
    """n rounds of every family"""
    cases = []
    counter = [1000]

    def fresh():
        counter[0] += 1
        return counter[0]
    KINDS = ["list", "tuple", "set", "frozenset", "dictkeys", "generator", "ndarray"]
    for _ in range(n):
        # --- class variants
        for cls in ("sc", "sc", "mysc", "myhg", "dh", "dh"):
            net = gen_net(rng, cls)
            c = {"f": "r2", "fam": "class", "cls": cls, "net": net, "steps": [gen_call(rng, cls, net) for _ in range(3)]}
            cases.append(c)
        cls = rng.choice(["myhg", "hg"])
        net = gen_net(rng, cls)
        cases.append({"f": "r2", "fam": "class", "cls": cls, "net": net, "cls2": rng.choice(["hg", "myhg"]), "net2": gen_net(rng, "hg", eids=PLAIN_EIDS[0]),
                      "steps": [{"op": "call", "fn": "lshift"}]})
        # --- held object: call, edit, call again (same and other arguments)
        for cls in ("hg", "sc", "hg", "myhg"):
            net = gen_net(rng, cls, attrs=0.3)
            N = build(cls, net)
            steps = []
            calls = [gen_call(rng, cls, net, fn=f) for f in rng.sample(["dual", "dual2", "sub", "lch", "cut", "complement", "relabel"] + (["fms", "kskel"] if cls in SC_LIKE else []), 3)]
            steps += copy.deepcopy(calls)
            for _round in range(2):
                steps += gen_edit(rng, N, fresh)
                now = enc_net(N)
                steps += copy.deepcopy(calls)                                           # the same option tuples
                steps += [gen_call(rng, cls, now, fn=c["fn"]) for c in calls[:2]]       # other option tuples, current IDs
            cases.append({"f": "r2", "fam": "held", "cls": cls, "net": net, "steps": steps})
        # --- tuple labels / tuple edge IDs / labels float() cannot read
        for cls, labels, eids in (("hg", rng.choice(TUPLE_LABELS), rng.choice(TUPLE_EIDS)), ("sc", rng.choice(TUPLE_LABELS), rng.choice(TUPLE_EIDS + PLAIN_EIDS)),
                                  ("hg", rng.choice(EXOTIC_LABELS), rng.choice(PLAIN_EIDS)), ("dh", rng.choice(TUPLE_LABELS), rng.choice(TUPLE_EIDS))):
            net = gen_net(rng, cls, labels=labels, eids=eids)
            steps = [gen_call(rng, cls, net) for _ in range(3)]
            if cls == "hg":
                steps += [{"op": "call", "fn": "dual"}, {"op": "call", "fn": "dual2"}]
            cases.append({"f": "r2", "fam": "labels", "cls": cls, "net": net, "steps": steps})
        net = gen_net(rng, "hg", labels=rng.choice(TUPLE_LABELS))
        cases.append({"f": "r2", "fam": "labels", "cls": "hg", "net": net, "cls2": "hg", "net2": gen_net(rng, "hg", labels=rng.choice(TUPLE_LABELS), eids=rng.choice(TUPLE_EIDS)),
                      "steps": [{"op": "call", "fn": "lshift"}]})
        # --- containers
        cls = rng.choice(["hg", "sc"])
        net = gen_net(rng, cls, labels=rng.choice(INT_LABELS))
        cases.append({"f": "r2", "fam": "container", "cls": cls, "net": net,
                      "steps": [gen_call(rng, cls, net, fn="sub", kinds=KINDS) for _ in range(4)]})
    return cases


def regime_cases(rng):
    """one large hypergraph and one large complex per run"""
    B = 2 ** 53
    nodes = list(range(60)) + [B, B + 1, B + 2, -B - 1] + [f"n{i}" for i in range(12)]
    rng.shuffle(nodes)
    edges = [[B + i if i < 3 else 500 + i, [nodes[0], nodes[1]]] for i in range(135)]          # >= 130 parallel edges
    edges += [[2000 + i, rng.sample(nodes[:40], rng.randint(2, 5))] for i in range(25)]
    edges += [[B + 10, [B, B + 1]], [B + 11, [B + 1, B + 2, -B - 1]]]
    net = {"nodes": [xenc(n) for n in nodes], "edges": [[xenc(e), [xenc(x) for x in ms]] for e, ms in edges],
           "eattr": [[B, {"w": 1}], [B + 1, {"w": 2}]], "nattr": [[B, {"color": "r"}], [B + 1, {"color": "g"}]], "net": {"name": "big"}}
    steps = [{"op": "call", "fn": f} for f in ("dual", "dual2", "lch", "relabel")]
    steps += [{"op": "call", "fn": "cut", "order": o} for o in (1, 2)]
    steps += [{"op": "call", "fn": "sub", "nodes": [xenc(n) for n in nodes[:50]] + [B + 1, B + 2, -B - 1], "edges": None, "keep_isolates": False, "nodes_kind": "set", "edges_kind": "list"},
              {"op": "call", "fn": "sub", "nodes": None, "edges": [B, B + 2, 600, 2001, B + 11], "keep_isolates": True, "nodes_kind": "list", "edges_kind": "tuple"}]
    steps += [{"op": "edit", "kind": "remove_edge", "id": B + 1}, {"op": "edit", "kind": "add_edge", "members": [B + 2, nodes[5]], "id": B + 1}]
    steps += [{"op": "call", "fn": f} for f in ("dual", "lch")]
    big = {"f": "r2", "fam": "regime", "cls": "hg", "net": net, "cls2": "hg", "net2": copy.deepcopy(net), "steps": steps + [{"op": "call", "fn": "lshift"}]}
    S = xgi.SimplicialComplex()
    snodes = list(range(66)) + [B, B + 1, B + 2, B + 3, "s0", "s1"]
    S.add_nodes_from(snodes)
    for i in range(0, 66, 3):
        S.add_simplex(snodes[i:i + 4])
    S.add_simplex([B, B + 1, B + 2])
    S.add_simplex([B + 2, B + 3])
    snet = enc_net(S)
    snet["edges"][0][0] = B + 7                           # a simplex ID above 2**53
    sc = {"f": "r2", "fam": "regime", "cls": "sc", "net": snet,
          "steps": [{"op": "call", "fn": f} for f in ("fms", "lch")] + [{"op": "call", "fn": "kskel", "order": 1}, {"op": "call", "fn": "cut", "order": 2},
                    {"op": "call", "fn": "sub", "nodes": [xenc(x) for x in snodes[:30]] + [B, B + 1], "edges": None, "keep_isolates": False, "nodes_kind": "frozenset", "edges_kind": "list"}]}
    return [big, sc]


FIXED = [
    # review 2, V7 / V14 / V27 and the reviewer's demonstrations, verbatim
    {"f": "r2", "fam": "class", "cls": "sc", "net": {"nodes": [1, 2, 3, 4], "edges": [[0, [1, 2, 3]], [1, [3, 4]], [2, [2, 3]], [3, [1, 2]], [4, [1, 3]]]},
     "steps": [{"op": "call", "fn": "sub", "nodes": None, "edges": [0], "keep_isolates": True}]},
    {"f": "r2", "fam": "class", "cls": "sc", "net": {"nodes": [1, 2, 3, 7, 8], "edges": [[0, [1, 2, 3]], [1, [7, 8]], [2, [2, 3]], [3, [1, 2]], [4, [1, 3]]], "eattr": [[2, {"w": 5}]]},
     "steps": [{"op": "call", "fn": "lch"}, {"op": "call", "fn": "sub", "nodes": [1, 2, 3], "edges": None, "keep_isolates": True}]},
    {"f": "r2", "fam": "class", "cls": "dh", "net": {"nodes": [1, 2, 3, 4], "edges": [[0, [1, 2], [3]], [1, [3], [4]], [2, [1], [2, 3, 4]]]},
     "steps": [{"op": "call", "fn": "cut", "order": 1}, {"op": "call", "fn": "cut", "order": 2}, {"op": "call", "fn": "cut", "order": 3}]},
    {"f": "r2", "fam": "class", "cls": "dh", "net": {"nodes": [0, 1, 2, 3], "edges": [[0, [0, 1], [2]]]}, "steps": [{"op": "call", "fn": "complement"}]},
    {"f": "r2", "fam": "class", "cls": "sc", "net": {"nodes": [1, 2], "edges": [[0, [1, 2]]]}, "steps": [{"op": "call", "fn": "dual"}, {"op": "call", "fn": "dual2"}]},
    {"f": "r2", "fam": "class", "cls": "mysc", "net": {"nodes": [1, 2, 3], "edges": [[0, [1, 2, 3]], [1, [2, 3]], [2, [1, 2]], [3, [1, 3]]]},
     "steps": [{"op": "call", "fn": "kskel", "order": 1}, {"op": "call", "fn": "fms"}, {"op": "call", "fn": "cut", "order": 1}]},
    {"f": "r2", "fam": "labels", "cls": "hg", "net": {"nodes": [{"$date": [2024, 1, 1]}, {"$date": [2024, 1, 2]}, {"$date": [2024, 1, 3]}],
                                                        "edges": [[0, [{"$date": [2024, 1, 1]}, {"$date": [2024, 1, 2]}]], [1, [{"$date": [2024, 1, 2]}, {"$date": [2024, 1, 3]}]]]},
     "steps": [{"op": "call", "fn": "dual"}]},
    {"f": "r2", "fam": "labels", "cls": "sc", "net": {"nodes": [[1, 2], [3, 4], "a", 1], "edges": [[0, [[1, 2], [3, 4]]], [[5, 6], ["a", 1, [1, 2]]], [2, ["a", 1]], [3, ["a", [1, 2]]], [4, [1, [1, 2]]]]},
     "steps": [{"op": "call", "fn": "fms"}, {"op": "call", "fn": "kskel", "order": 1}, {"op": "call", "fn": "lch"}]},
    # held object: the reviewer's demonstration for a remembered dual
    {"f": "r2", "fam": "held", "cls": "hg", "net": {"nodes": [1, 2, 3], "edges": [[0, [1, 2]], [1, [2, 3]]]},
     "steps": [{"op": "call", "fn": "dual"}, {"op": "edit", "kind": "remove_edge", "id": 1}, {"op": "edit", "kind": "add_edge", "members": [1, 3], "id": "x"},
               {"op": "call", "fn": "dual"}, {"op": "call", "fn": "dual2"}]},
]


# ----------------------------------------------------------------------------- shrinking

def shrink(case, cls_, site, budget=60):
    def still(c):
        try:
            return any(s == site and k == cls_ for s, k, _, _ in run_case(c))
        except Exception:  # noqa
            return False
    case = copy.deepcopy(case)
    # cut the script after the first failing call
    try:
        i = next(i for s, k, _, i in run_case(case) if s == site and k == cls_)
        case["steps"] = case["steps"][:i + 1]
    except StopIteration:
        return case
    changed = True
    while changed and budget > 0:
        changed = False
        cands = []
        for i in range(len(case["steps"]) - 2, -1, -1):
            c = copy.deepcopy(case); del c["steps"][i]; cands.append(c)
        if len(case["net"]["nodes"]) <= 12:
            for i in range(len(case["net"]["edges"]) - 1, -1, -1):
                c = copy.deepcopy(case); del c["net"]["edges"][i]; cands.append(c)
            if case["cls"] not in SC_LIKE:
                used = {json.dumps(x, sort_keys=True) for p in case["net"]["edges"] for side in p[1:] for x in side}
                for i in range(len(case["net"]["nodes"]) - 1, -1, -1):
                    if json.dumps(case["net"]["nodes"][i], sort_keys=True) not in used:
                        c = copy.deepcopy(case); del c["net"]["nodes"][i]; cands.append(c)
            for k in ("nattr", "eattr"):
                if case["net"].get(k):
                    c = copy.deepcopy(case); c["net"][k] = []; cands.append(c)
        for c in cands:
            budget -= 1
            if budget <= 0:
                break
            if still(c):
                case, changed = c, True
                break
    return case


SHRUNK = {}


def evaluate(ctx, cases):
    for case in cases:
        try:
            res = run_case(case)
        except Exception as e:  # noqa   (the network of the case could not even be built: not a C19 matter)
            ctx.stats["r2:unbuildable:" + type(e).__name__] += 1
            continue
        calls = sum(1 for s in case["steps"] if s["op"] == "call")
        ctx.evaluations += calls
        ctx.stats["r2:" + case["fam"] + ":" + case["cls"]] += 1
        ctx.stats["r2:calls"] += calls
        for s in case["steps"]:
            if s["op"] == "call":
                ctx.stats[f"r2:fn:{s['fn']}:{case['cls']}"] += 1
                for kk in ("nodes_kind", "edges_kind"):
                    if s.get(kk) and s.get(kk[:-5]) is not None:
                        ctx.stats["r2:container:" + s[kk]] += 1
        seen = set()
        for site, cls_, detail, i in res:
            if (site, cls_) in seen:
                continue
            seen.add((site, cls_))
            # shrink the first few witnesses of a (site, class, family, network class); later ones are recorded as they are
            # (Ctx.violation keeps the smallest)
            k4 = (site, cls_, case["fam"], case["cls"])
            SHRUNK[k4] = SHRUNK.get(k4, 0) + 1
            if SHRUNK[k4] <= 2:
                small = shrink(case, cls_, site)
                d2 = next((d for s, k, d, _ in run_case(small) if s == site and k == cls_), detail)
            else:
                small = dict(case, steps=case["steps"][:i + 1])
                d2 = detail
            ctx.violation(site, cls_, small, detail=d2)
        if calls and any(len(p[1]) >= 2 for p in case["net"]["edges"]):
            from .core import jhash
            ctx.nontrivial.add(jhash(["r2", case]))
